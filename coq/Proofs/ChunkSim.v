(* Proofs/ChunkSim.v — C09 (and the second half of C11's "error or identical result"), writer side, whole programs:
   two runs of the same program over sinks that split writes differently (both failure-free) return the same results
   call by call and leave the same bytes in the sink.  Relation [R]: the two writer states agree on everything except
   the unconsumed plans.  The only place where the chunking is visible to the state machine is the large-file error
   of ZipWriter::write (it fires on the inner write that crosses the limit, so how much reached the sink before
   depends on the chunking): runs in which a call returns that error are excluded by hypothesis. *)
From Coq Require Import ZArith Lia List.
From ZipV Require Import Base.Bytes Base.Outcome Gen.GenLib Gen.SpecGen Gen.CompressionGen Gen.TypesGen Gen.WriteGen
     Model.Readers Model.Reader Model.Writer Model.WriterCalls Proofs.WriterIdeal Proofs.ShortWrites.
Import ListNotations.
Open Scope N_scope.

Definition large_err : err := EIo KOther ILargeFile.

Section StorerWrites.
  (* ZipWriter::write_all on an open stored entry: the closed form, or the large-file error *)
  Lemma zw_write_all_fuel_cf : forall fuel bs s d,
    ws_to_file s = true -> ws_to_extra s = false -> ws_inner s = WStorer d -> nofail (d_plan d) ->
    (ws_written s + len bs <= ZIP64_BYTES_THR \/ large_last s = true) -> (length bs < fuel)%nat ->
    exists p', nofail p' /\
      zw_write_all_fuel fuel s bs =
      (wrote s {| d_buf := wr (d_buf d) (d_pos d) bs; d_pos := d_pos d + len bs; d_plan := p' |} bs, Ok tt).
  Proof.
    induction fuel as [|f IH]; intros bs s d Hf He Hi Hp Hlg Hfu; [lia|].
    destruct bs as [|x bs'] eqn:Eb.
    - exists (d_plan d). split; [exact Hp|]. cbn [zw_write_all_fuel]. f_equal. unfold wrote, set_stats, set_inner.
      cbn [ws_inner ws_files ws_start ws_written ws_hashed ws_to_file ws_to_extra ws_central_only ws_raw ws_comment wr].
      cbn [len length N.of_nat]. rewrite !N.add_0_r, app_nil_r.
      destruct s; cbn in *; subst; now destruct d.
    - rewrite <- Eb in *. assert (Hne : bs <> []) by (rewrite Eb; discriminate).
      destruct (dev_write_nofail d bs Hp Hne) as (k & p1 & Hw & Hk & Hp1).
      set (d1 := {| d_buf := put_at (d_buf d) (d_pos d) (take k bs); d_pos := d_pos d + k; d_plan := p1 |}) in *.
      assert (Hlt : len (take k bs) = k) by (rewrite len_take; lia).
      assert (Hz : zw_write s bs = (wrote s d1 (take k bs), Ok k)).
      { unfold zw_write. rewrite Hf, He, Hi. cbn [negb]. rewrite Hw.
        match goal with |- (if ?c then _ else _) = _ => replace c with false end.
        - unfold wrote. now rewrite Hlt.
        - symmetry. cbn [set_stats set_inner ws_files ws_written]. fold (large_last s).
          destruct Hlg as [Hlg|Hlg].
          + replace (ZIP64_BYTES_THR <? ws_written s + k) with false by (symmetry; apply N.ltb_ge; lia). reflexivity.
          + rewrite Hlg. apply Bool.andb_false_r. }
      replace (zw_write_all_fuel (S f) s bs) with
        (match zw_write s bs with
         | (s1, Ok k) => if k =? 0 then (s1, Err (EIo KOther IWriteZero)) else zw_write_all_fuel f s1 (drop k bs)
         | (s1, Err e) => (s1, Err e) | (s1, Panic p) => (s1, Panic p) end) by (rewrite Eb; reflexivity).
      rewrite Hz. destruct (k =? 0) eqn:Ek; [apply N.eqb_eq in Ek; lia|].
      destruct (IH (drop k bs) (wrote s d1 (take k bs)) d1) as (p' & Hp' & Hr).
      + exact Hf. + exact He. + reflexivity. + exact Hp1.
      + destruct Hlg as [Hlg|Hlg]; [left|right; exact Hlg].
        unfold wrote. cbn [set_stats ws_written]. rewrite Hlt, len_drop. lia.
      + pose proof (len_drop k bs) as Hd. unfold len in *. lia.
      + exists p'. split; [exact Hp'|]. rewrite Hr. f_equal. unfold wrote, set_stats, set_inner, d1.
        cbn [ws_inner ws_files ws_start ws_written ws_hashed ws_to_file ws_to_extra ws_central_only ws_raw ws_comment d_buf d_pos].
        assert (Hput : put_at (d_buf d) (d_pos d) (take k bs) = wr (d_buf d) (d_pos d) (take k bs)).
        { destruct (take k bs) eqn:Et; [cbn [len length N.of_nat] in Hlt; lia|reflexivity]. }
        rewrite Hput. rewrite <- Hlt at 2. rewrite wr_app, take_drop, <- app_assoc, take_drop, Hlt, len_drop.
        replace (d_pos d + k + (len bs - k)) with (d_pos d + len bs) by lia.
        replace (ws_written s + k + (len bs - k)) with (ws_written s + len bs) by lia. reflexivity.
  Qed.

  Lemma zw_write_all_fuel_large : forall fuel bs s d,
    ws_to_file s = true -> ws_to_extra s = false -> ws_inner s = WStorer d -> nofail (d_plan d) -> bs <> [] ->
    ZIP64_BYTES_THR < ws_written s + len bs -> large_last s = false -> (length bs < fuel)%nat ->
    exists s', zw_write_all_fuel fuel s bs = (s', Err large_err).
  Proof.
    induction fuel as [|f IH]; intros bs s d Hf He Hi Hp Hne Hgt Hlg Hfu; [lia|].
    destruct (dev_write_nofail d bs Hp Hne) as (k & p1 & Hw & Hk & Hp1).
    set (d1 := {| d_buf := put_at (d_buf d) (d_pos d) (take k bs); d_pos := d_pos d + k; d_plan := p1 |}) in *.
    assert (Hlt : len (take k bs) = k) by (rewrite len_take; lia).
    replace (zw_write_all_fuel (S f) s bs) with
      (match zw_write s bs with
       | (s1, Ok k) => if k =? 0 then (s1, Err (EIo KOther IWriteZero)) else zw_write_all_fuel f s1 (drop k bs)
       | (s1, Err e) => (s1, Err e) | (s1, Panic p) => (s1, Panic p) end) by (destruct bs; [congruence|reflexivity]).
    destruct (ZIP64_BYTES_THR <? ws_written s + k) eqn:Ec.
    - (* this write crosses the limit *)
      assert (Hz : exists s1, zw_write s bs = (s1, Err large_err)).
      { unfold zw_write. rewrite Hf, He, Hi. cbn [negb]. rewrite Hw.
        cbn [set_stats set_inner ws_files ws_written]. fold (large_last s). rewrite Ec, Hlg. cbn [negb andb].
        eexists. reflexivity. }
      destruct Hz as (s1 & ->). eexists. reflexivity.
    - apply N.ltb_ge in Ec.
      assert (Hz : zw_write s bs = (wrote s d1 (take k bs), Ok k)).
      { unfold zw_write. rewrite Hf, He, Hi. cbn [negb]. rewrite Hw.
        cbn [set_stats set_inner ws_files ws_written]. fold (large_last s).
        replace (ZIP64_BYTES_THR <? ws_written s + k) with false by (symmetry; apply N.ltb_ge; lia).
        cbn [andb]. unfold wrote. now rewrite Hlt. }
      rewrite Hz. destruct (k =? 0) eqn:Ek; [apply N.eqb_eq in Ek; lia|].
      apply (IH (drop k bs) (wrote s d1 (take k bs)) d1); auto.
      + intro Hd. pose proof (len_drop k bs) as L. rewrite Hd in L. cbn [len length N.of_nat] in L. lia.
      + unfold wrote. cbn [set_stats ws_written]. rewrite Hlt, len_drop. lia.
      + pose proof (len_drop k bs) as Hd. unfold len in *. lia.
  Qed.
End StorerWrites.

(* ---------- the relation *)
Definition drel (d1 d2 : dev) : Prop :=
  d_buf d1 = d_buf d2 /\ d_pos d1 = d_pos d2 /\ nofail (d_plan d1) /\ nofail (d_plan d2).
Definition odrel (o1 o2 : option dev) : Prop :=
  match o1, o2 with Some a, Some b => drel a b | None, None => True | _, _ => False end.
Definition irel (i1 i2 : winner) : Prop :=
  match i1, i2 with
  | WClosed l1, WClosed l2 => odrel l1 l2
  | WStorer d1, WStorer d2 => drel d1 d2
  | WEnc d1 b1 k1, WEnc d2 b2 k2 => drel d1 d2 /\ b1 = b2 /\ k1 = k2
  | WComp m1 l1 d1 e1 p1, WComp m2 l2 d2 e2 p2 => m1 = m2 /\ l1 = l2 /\ drel d1 d2 /\ e1 = e2 /\ p1 = p2
  | _, _ => False
  end.
Record R (s1 s2 : wstate) : Prop := {
  r_inner : irel (ws_inner s1) (ws_inner s2);
  r_files : ws_files s1 = ws_files s2; r_start : ws_start s1 = ws_start s2; r_written : ws_written s1 = ws_written s2;
  r_hashed : ws_hashed s1 = ws_hashed s2; r_tf : ws_to_file s1 = ws_to_file s2; r_te : ws_to_extra s1 = ws_to_extra s2;
  r_co : ws_central_only s1 = ws_central_only s2; r_raw : ws_raw s1 = ws_raw s2; r_comment : ws_comment s1 = ws_comment s2 }.

Lemma drel_mk b p p1 p2 : nofail p1 -> nofail p2 ->
  drel {| d_buf := b; d_pos := p; d_plan := p1 |} {| d_buf := b; d_pos := p; d_plan := p2 |}.
Proof. intros. repeat split; assumption. Qed.

Lemma R_set_inner s1 s2 i1 i2 : R s1 s2 -> irel i1 i2 -> R (set_inner s1 i1) (set_inner s2 i2).
Proof. intros [] H. constructor; cbn; auto. Qed.
Lemma R_same_inner s1 s2 : R s1 s2 -> exists i2, s2 = set_inner s1 i2 /\ irel (ws_inner s1) i2.
Proof.
  intros [H1 H2 H3 H4 H5 H6 H7 H8 H9 H10]. exists (ws_inner s2). split; [|exact H1].
  destruct s1, s2; cbn in *; subst; reflexivity.
Qed.

Lemma irel_dev_of i1 i2 : irel i1 i2 -> odrel (dev_of i1) (dev_of i2).
Proof. destruct i1, i2; cbn; try tauto. Qed.
Lemma irel_close i1 i2 : irel i1 i2 -> irel (close_of i1) (close_of i2).
Proof. intro H. unfold close_of. cbn [irel]. now apply irel_dev_of. Qed.
Lemma irel_closed i1 i2 : irel i1 i2 -> is_closed i1 = is_closed i2.
Proof. destruct i1, i2; cbn; tauto. Qed.
Lemma irel_cur i1 i2 : irel i1 i2 -> cur_method i1 = cur_method i2.
Proof. destruct i1, i2; cbn; try tauto. intros (-> & _). reflexivity. Qed.

(* ---------- sink primitives: on related devices both succeed with the same value and related results *)
Definition sim_ok {A} (k : dev -> dev * res A) : Prop :=
  forall d1 d2, drel d1 d2 -> exists d1' d2' v, k d1 = (d1', Ok v) /\ k d2 = (d2', Ok v) /\ drel d1' d2'.
(* closures that may also return a (plan-independent) error *)
Definition ksim {A} (k : dev -> dev * res A) : Prop :=
  forall d1 d2, drel d1 d2 -> exists d1' d2' r, k d1 = (d1', r) /\ k d2 = (d2', r) /\ drel d1' d2'.
Lemma sim_ok_ksim {A} (k : dev -> dev * res A) : sim_ok k -> ksim k.
Proof. intros H d1 d2 Hd. destruct (H d1 d2 Hd) as (a & b & v & E1 & E2 & Hr). exists a, b, (Ok v). auto. Qed.

Lemma dev_write_all_sim bs : sim_ok (fun d => dev_write_all d bs).
Proof.
  intros d1 d2 (Hb & Hp & H1 & H2).
  destruct (dev_write_all_cf d1 bs H1) as (p1 & Hp1 & E1). destruct (dev_write_all_cf d2 bs H2) as (p2 & Hp2 & E2).
  rewrite E1, E2. rewrite Hb, Hp. eexists. eexists. exists tt. split; [reflexivity|]. split; [reflexivity|]. now apply drel_mk.
Qed.
Lemma dev_write_chunks_sim cs : sim_ok (fun d => dev_write_chunks d cs).
Proof.
  intros d1 d2 (Hb & Hp & H1 & H2).
  destruct (dev_write_chunks_cf cs d1 H1) as (p1 & Hp1 & E1). destruct (dev_write_chunks_cf cs d2 H2) as (p2 & Hp2 & E2).
  rewrite E1, E2. rewrite Hb, Hp. eexists. eexists. exists tt. split; [reflexivity|]. split; [reflexivity|]. now apply drel_mk.
Qed.
Lemma dev_event_nf d : nofail (d_plan d) -> exists p', nofail p' /\ dev_event d = ({| d_buf := d_buf d; d_pos := d_pos d; d_plan := p' |}, Ok tt).
Proof.
  intro H. unfold dev_event. destruct (d_plan d) as [|[n|] p] eqn:E.
  - exists []. split; [constructor|]. destruct d; cbn in *; now subst.
  - exists p. split; [now apply nofail_tail in H|reflexivity].
  - exfalso. inversion H as [|? ? H1 _]. now apply H1.
Qed.
Lemma dev_seek_sim q : sim_ok (fun d => dev_seek d q).
Proof.
  intros d1 d2 (Hb & Hp & H1 & H2). unfold dev_seek.
  destruct (dev_event_nf d1 H1) as (p1 & Hp1 & ->). destruct (dev_event_nf d2 H2) as (p2 & Hp2 & ->). cbn [d_buf d_plan].
  rewrite Hb. eexists. eexists. exists tt. split; [reflexivity|]. split; [reflexivity|]. now apply drel_mk.
Qed.
Lemma dev_pos_sim : sim_ok dev_pos.
Proof.
  intros d1 d2 (Hb & Hp & H1 & H2). unfold dev_pos.
  destruct (dev_event_nf d1 H1) as (p1 & Hp1 & ->). destruct (dev_event_nf d2 H2) as (p2 & Hp2 & ->). cbn [d_pos].
  rewrite Hb, Hp. eexists. eexists. eexists. split; [reflexivity|]. split; [reflexivity|]. now apply drel_mk.
Qed.
Lemma dev_flush_sim : sim_ok dev_flush.
Proof.
  intros d1 d2 (Hb & Hp & H1 & H2). unfold dev_flush.
  destruct (dev_event_nf d1 H1) as (p1 & Hp1 & ->). destruct (dev_event_nf d2 H2) as (p2 & Hp2 & ->).
  rewrite Hb, Hp. eexists. eexists. exists tt. split; [reflexivity|]. split; [reflexivity|]. now apply drel_mk.
Qed.
Lemma dev_seek_end_sim : sim_ok dev_seek_end.
Proof.
  intros d1 d2 (Hb & Hp & H1 & H2). unfold dev_seek_end.
  destruct (dev_event_nf d1 H1) as (p1 & Hp1 & ->). destruct (dev_event_nf d2 H2) as (p2 & Hp2 & ->). cbn [d_buf d_plan].
  rewrite Hb. eexists. eexists. eexists. split; [reflexivity|]. split; [reflexivity|]. now apply drel_mk.
Qed.

Ltac inj H := injection H; clear H; intros; subst.

Section Sim.
  Variable enc : CompressionMethod -> Z -> bytes -> bytes.
  Variable crc : bytes -> N.

  Lemma with_plain_sim {A} (k : dev -> dev * res A) s1 s2 s1' r : ksim k -> R s1 s2 -> with_plain s1 k = (s1', r) ->
    exists s2', with_plain s2 k = (s2', r) /\ R s1' s2'.
  Proof.
    intros Hk HR H. pose proof HR as HR0. destruct (R_same_inner _ _ HR) as (i2 & -> & Hi). unfold with_plain in *. cbn [ws_inner set_inner].
    destruct (ws_inner s1) as [l1|d1|d1 b1 k1|? ? ? ? ?] eqn:E1; destruct i2 as [l2|d2|d2 b2 k2|? ? ? ? ?]; try (now cbn in Hi).
    - inj H. eexists. split; [reflexivity|]. exact HR0.
    - destruct (Hk d1 d2 Hi) as (d1' & d2' & r0 & Ea & Eb & Hd). rewrite Ea in H. rewrite Eb. inj H.
      eexists. split; [reflexivity|]. destruct HR0. constructor; cbn; auto.
    - destruct Hi as (Hd0 & -> & ->). destruct (Hk d1 d2 Hd0) as (d1' & d2' & r0 & Ea & Eb & Hd). rewrite Ea in H. rewrite Eb. inj H.
      eexists. split; [reflexivity|]. destruct HR0. constructor; cbn; auto.
    - inj H. eexists. split; [reflexivity|]. exact HR0.
  Qed.

  Lemma finish_comp_sim i1 i2 i1' r : irel i1 i2 -> finish_comp enc i1 = (i1', r) ->
    exists i2', finish_comp enc i2 = (i2', r) /\ irel i1' i2'.
  Proof.
    intros Hi H. destruct i1 as [l1|d1|d1 b1 k1|m1 lv1 d1 e1 p1]; destruct i2 as [l2|d2|d2 b2 k2|m2 lv2 d2 e2 p2]; try (now cbn in Hi);
      cbn [finish_comp] in *.
    - inj H. eexists. split; [reflexivity|exact Hi].
    - inj H. eexists. split; [reflexivity|exact Hi].
    - inj H. eexists. split; [reflexivity|exact Hi].
    - destruct Hi as (-> & -> & Hd & -> & ->). destruct e2 as [[b k]|].
      + inj H. eexists. split; [reflexivity|]. cbn. auto.
      + destruct (dev_write_all_sim (enc m2 lv2 p2) d1 d2 Hd) as (d1' & d2' & v & Ea & Eb & Hd'). cbv beta in Ea, Eb.
        rewrite Ea in H. rewrite Eb. inj H. eexists. split; [reflexivity|exact Hd'].
  Qed.

  Lemma switch_to_sim s1 s2 m lvl s1' r : R s1 s2 -> switch_to enc s1 m lvl = (s1', r) ->
    exists s2', switch_to enc s2 m lvl = (s2', r) /\ R s1' s2'.
  Proof.
    intros HR H. pose proof (r_inner _ _ HR) as Hi. unfold switch_to in *. rewrite <- (irel_cur _ _ Hi).
    destruct (cur_method (ws_inner s1)) as [cm|]; [|inj H; eexists; split; [reflexivity|exact HR]].
    destruct (CompressionMethod_eqb cm m); [inj H; eexists; split; [reflexivity|exact HR]|].
    destruct (finish_comp enc (ws_inner s1)) as [i1 r1] eqn:E1. destruct (finish_comp_sim _ _ _ _ Hi E1) as (i2 & E2 & Hi'). rewrite E2.
    pose proof (irel_close _ _ Hi') as Hc.
    destruct r1 as [u1|e1|p1]; [|inj H; eexists; split; [reflexivity|now apply R_set_inner]..].
    destruct m; try (inj H; eexists; split; [reflexivity|now apply R_set_inner]).
    - destruct lvl; inj H; eexists; (split; [reflexivity|now apply R_set_inner]).
    - destruct (level_ok _ lvl); [|inj H; eexists; split; [reflexivity|now apply R_set_inner]].
      destruct i1, i2; try (now cbn in Hi'); inj H; eexists; (split; [reflexivity|]); apply R_set_inner; auto; cbn in *; intuition (subst; auto).
    - destruct (level_ok _ lvl); [|inj H; eexists; split; [reflexivity|now apply R_set_inner]].
      destruct i1, i2; try (now cbn in Hi'); inj H; eexists; (split; [reflexivity|]); apply R_set_inner; auto; cbn in *; intuition (subst; auto).
    - destruct (level_ok _ lvl); [|inj H; eexists; split; [reflexivity|now apply R_set_inner]].
      destruct i1, i2; try (now cbn in Hi'); inj H; eexists; (split; [reflexivity|]); apply R_set_inner; auto; cbn in *; intuition (subst; auto).
  Qed.

  Lemma update_local_ksim f : ksim (fun d => update_local d f).
  Proof.
    intros d1 d2 Hd. unfold update_local.
    destruct (dev_seek_sim (w_header_start f + 14) d1 d2 Hd) as (a1 & a2 & v & -> & -> & Ha).
    destruct (dev_write_all_sim (le32 (w_crc f)) a1 a2 Ha) as (b1 & b2 & v' & Eb1 & Eb2 & Hb). cbv beta in Eb1, Eb2. rewrite Eb1, Eb2.
    destruct (w_large f).
    - destruct (dev_seek_sim (w_header_start f + 30 + len (w_name f) + 4) b1 b2 Hb) as (c1 & c2 & v'' & -> & -> & Hc).
      destruct (dev_write_chunks_sim [le64 (w_usize f); le64 (w_csize f)] c1 c2 Hc) as (e1 & e2 & v3 & Ee1 & Ee2 & He).
      cbv beta in Ee1, Ee2. rewrite Ee1, Ee2. eexists. eexists. eexists. auto.
    - destruct (ZIP64_BYTES_THR <? w_csize f); [eexists; eexists; eexists; auto|].
      destruct (dev_write_chunks_sim [le32 (w_csize f mod 2 ^ 32); le32 (w_usize f mod 2 ^ 32)] b1 b2 Hb) as (e1 & e2 & v3 & Ee1 & Ee2 & He).
      cbv beta in Ee1, Ee2. rewrite Ee1, Ee2. eexists. eexists. eexists. auto.
  Qed.

  Lemma R_refl_inner s i2 : irel (ws_inner s) i2 -> R s (set_inner s i2).
  Proof. intro H. constructor; cbn; auto. Qed.

  (* the part of end_extra_data behind the closed-writer test, as a function of the state *)
  Definition eed_open (s : wstate) : wstate * res N :=
    match last_file (ws_files s) with
    | None => (s, Panic PLastUnwrap)
    | Some f =>
        match validate_extra_data f with
        | Err e => (s, Err e)
        | Panic p => (s, Panic p)
        | Ok _ =>
            if ws_central_only s then
              (set_flags s (ws_to_file s) false false (ws_raw s), Ok (w_data_start f))
            else
              match with_plain s (fun d => dev_write_all d (w_extra f)) with
              | (s1, Ok _) =>
                  let header_end := w_data_start f + len (w_extra f) in
                  let s2 := set_files (set_stats s1 header_end (ws_written s1) (ws_hashed s1))
                                      (upd_last (ws_files s1) (fun g => wf_set_data_start g header_end)) in
                  match add_chk 16 (if w_large f then 20 else 0) (len (w_extra f) mod 65536) with
                  | None => (s2, Panic PExtraLenAdd)
                  | Some xl =>
                      match with_plain s2 (fun d =>
                              match dev_seek d (w_header_start f + 28) with
                              | (d1, Ok _) => match dev_write_all d1 (le16 xl) with
                                              | (d2, Ok _) => dev_seek d2 header_end
                                              | bad => bad end
                              | bad => bad end) with
                      | (s3, Ok _) =>
                          match switch_to enc s3 (w_method f) (w_level f) with
                          | (s4, Ok _) => (set_flags s4 (ws_to_file s4) false false (ws_raw s4), Ok header_end)
                          | (s4, Err e) => (s4, Err e)
                          | (s4, Panic p) => (s4, Panic p)
                          end
                      | (s3, Err e) => (s3, Err e)
                      | (s3, Panic p) => (s3, Panic p)
                      end
                  end
              | (s1, Err e) => (s1, Err e)
              | (s1, Panic p) => (s1, Panic p)
              end
        end end.

  Lemma end_extra_data_unfold s : end_extra_data enc s =
    if negb (ws_to_extra s) then (s, Err (EIo KOther INotExtra)) else
    if is_closed (ws_inner s) then (s, Err closed_err) else eed_open s.
  Proof. unfold end_extra_data, eed_open. destruct (negb (ws_to_extra s)); [reflexivity|]. destruct (ws_inner s); reflexivity. Qed.

  Lemma patch_ksim q xl he : ksim (fun d => match dev_seek d q with
                              | (d1, Ok _) => match dev_write_all d1 (le16 xl) with
                                              | (d2, Ok _) => dev_seek d2 he
                                              | bad => bad end
                              | bad => bad end).
  Proof.
    intros d1 d2 Hd. destruct (dev_seek_sim q d1 d2 Hd) as (a1 & a2 & v & -> & -> & Ha).
    destruct (dev_write_all_sim (le16 xl) a1 a2 Ha) as (b1 & b2 & v' & Eb1 & Eb2 & Hb). cbv beta in Eb1, Eb2. rewrite Eb1, Eb2.
    destruct (dev_seek_sim he b1 b2 Hb) as (c1 & c2 & v'' & -> & -> & Hc). eexists. eexists. eexists. auto.
  Qed.

  Lemma eed_open_sim s1 s2 s1' r : R s1 s2 -> eed_open s1 = (s1', r) -> exists s2', eed_open s2 = (s2', r) /\ R s1' s2'.
  Proof.
    intros HR H. pose proof HR as HR0. destruct (R_same_inner _ _ HR) as (i2 & -> & Hi). unfold eed_open in *.
    cbn [set_inner ws_files ws_central_only ws_to_file ws_raw].
    destruct (last_file (ws_files s1)) as [f|]; [|inj H; eexists; split; [reflexivity|exact HR0]].
    destruct (validate_extra_data f); [|inj H; eexists; split; [reflexivity|exact HR0]..].
    destruct (ws_central_only s1).
    { inj H. eexists. split; [reflexivity|]. destruct HR0. constructor; cbn; auto. }
    destruct (with_plain s1 _) as [sa ra] eqn:Ea.
    destruct (with_plain_sim _ _ _ _ _ (sim_ok_ksim _ (dev_write_all_sim (w_extra f))) HR0 Ea) as (sb & Eb & HRa). rewrite Eb. clear Ea Eb.
    destruct ra as [ua|ea|pa]; [|inj H; eexists; split; [reflexivity|exact HRa]..].
    destruct (R_same_inner _ _ HRa) as (ib & -> & Hib). cbv zeta in *. cbn [set_inner ws_files ws_written ws_hashed].
    match type of H with context [set_files ?x ?y] => set (S1 := set_files x y) in * end.
    match goal with |- context [set_files (set_stats (set_inner sa ib) ?a ?b ?c) ?y] => set (S2 := set_files (set_stats (set_inner sa ib) a b c) y) in * end.
    assert (HR2 : R S1 S2) by (subst S1 S2; destruct HRa; constructor; cbn; auto).
    destruct (add_chk 16 _ _) as [xl|]; [|inj H; eexists; split; [reflexivity|exact HR2]].
    destruct (with_plain S1 _) as [sc rc] eqn:Ec.
    destruct (with_plain_sim _ _ _ _ _ (patch_ksim _ _ _) HR2 Ec) as (sd & Ed & HRc). rewrite Ed. clear Ec Ed.
    destruct rc as [uc|ec|pc]; [|inj H; eexists; split; [reflexivity|exact HRc]..].
    destruct (switch_to enc sc _ _) as [se re] eqn:Ee. destruct (switch_to_sim _ _ _ _ _ _ HRc Ee) as (sf & Ef & HRe). rewrite Ef.
    destruct re as [ue|ee|pe]; inj H; eexists; (split; [reflexivity|]); auto.
    destruct HRe. constructor; cbn; auto.
  Qed.

  Lemma end_extra_data_sim s1 s2 s1' r : R s1 s2 -> end_extra_data enc s1 = (s1', r) ->
    exists s2', end_extra_data enc s2 = (s2', r) /\ R s1' s2'.
  Proof.
    intros HR H. rewrite end_extra_data_unfold in *. rewrite <- (r_te _ _ HR), <- (irel_closed _ _ (r_inner _ _ HR)).
    destruct (negb (ws_to_extra s1)); [inj H; eexists; split; [reflexivity|exact HR]|].
    destruct (is_closed (ws_inner s1)); [inj H; eexists; split; [reflexivity|exact HR]|].
    exact (eed_open_sim _ _ _ _ HR H).
  Qed.

  Lemma patch_sizes_ksim f q : ksim (fun d => match update_local d f with
                                              | (d1, Ok _) => dev_seek d1 q
                                              | bad => bad end).
  Proof.
    intros d1 d2 Hd. destruct (update_local_ksim f d1 d2 Hd) as (a1 & a2 & r & E1 & E2 & Ha). cbv beta in E1, E2. rewrite E1, E2.
    destruct r as [u|e|p]; [|eexists; eexists; eexists; auto..].
    destruct (dev_seek_sim q a1 a2 Ha) as (c1 & c2 & v & -> & -> & Hc). eexists. eexists. eexists. auto.
  Qed.

  Lemma finish_file_sim s1 s2 s1' r : R s1 s2 -> finish_file enc crc s1 = (s1', r) ->
    exists s2', finish_file enc crc s2 = (s2', r) /\ R s1' s2'.
  Proof.
    intros HR H. unfold finish_file in *. rewrite <- (r_te _ _ HR).
    (* phase 0 *)
    match type of H with (let (_, _) := ?X in _) = _ => destruct X as [sa ra] eqn:Ea end.
    assert (P0 : exists sb, (if ws_to_extra s1
                 then (let '(s', r) := end_extra_data enc s2 in (s', match r with Ok _ => Ok tt | Err e => Err e | Panic p => Panic p end))
                 else (s2, Ok tt)) = (sb, ra) /\ R sa sb).
    { destruct (ws_to_extra s1).
      - destruct (end_extra_data enc s1) as [sx rx] eqn:Ex. destruct (end_extra_data_sim _ _ _ _ HR Ex) as (sy & Ey & HRx). rewrite Ey.
        inj Ea. eexists. split; [reflexivity|exact HRx].
      - inj Ea. eexists. split; [reflexivity|exact HR]. }
    destruct P0 as (sb & Eb & HRa). rewrite Eb. clear Ea Eb.
    destruct ra as [ua|ea|pa]; [|inj H; eexists; split; [reflexivity|exact HRa]..].
    destruct (switch_to enc sa CompressionMethod_Stored None) as [sc rc] eqn:Ec.
    destruct (switch_to_sim _ _ _ _ _ _ HRa Ec) as (sd & Ed & HRc). rewrite Ed. clear Ec Ed.
    destruct rc as [uc|ec|pc]; [|inj H; eexists; split; [reflexivity|exact HRc]..].
    (* the encrypting storer *)
    match type of H with (let (_, _) := ?X in _) = _ => destruct X as [se re] eqn:Ee end.
    match goal with |- exists _, (let (_, _) := ?Y in _) = _ /\ _ => assert (P2 : exists sf, Y = (sf, re) /\ R se sf) end.
    { pose proof HRc as HRc0. destruct (R_same_inner _ _ HRc) as (id & -> & Hid). cbn [set_inner ws_inner ws_hashed] in *.
      destruct (ws_inner sc) as [l1|d1|d1 b1 k1|? ? ? ? ?] eqn:Ei; destruct id as [l2|d2|d2 b2 k2|? ? ? ? ?]; try (now cbn in Hid).
      - inj Ee. eexists. split; [reflexivity|exact HRc0].
      - inj Ee. eexists. split; [reflexivity|exact HRc0].
      - destruct Hid as (Hd & -> & ->). cbv zeta in *. destruct (zc_encrypt k2 _) as [k' ct].
        destruct (dev_write_all_sim ct d1 d2 Hd) as (a1 & a2 & v & Ea1 & Ea2 & Ha). cbv beta in Ea1, Ea2. rewrite Ea1 in Ee. rewrite Ea2.
        destruct (dev_flush_sim a1 a2 Ha) as (c1 & c2 & v2 & Ec1 & Ec2 & Hc). rewrite Ec1 in Ee. rewrite Ec2.
        inj Ee. eexists. split; [reflexivity|]. destruct HRc0. constructor; cbn; auto.
      - inj Ee. eexists. split; [reflexivity|exact HRc0]. }
    destruct P2 as (sf & Ef & HRe). rewrite Ef. clear Ee Ef.
    destruct re as [ue|ee|pe]; [|inj H; eexists; split; [reflexivity|exact HRe]..].
    pose proof HRe as HRe0. destruct (R_same_inner _ _ HRe) as (ie & -> & Hie). cbn [set_inner ws_inner ws_raw ws_files ws_to_extra ws_central_only] in *.
    destruct (ws_inner se) as [l1|d1|d1 b1 k1|? ? ? ? ?] eqn:Ei; destruct ie as [l2|d2|d2 b2 k2|? ? ? ? ?]; try (now cbn in Hie);
      try (inj H; eexists; split; [reflexivity|exact HRe0]).
    destruct (ws_raw se).
    { inj H. eexists. split; [reflexivity|]. destruct HRe0. constructor; cbn in *; auto. }
    destruct (last_file (ws_files se)) as [f|]; [|inj H; eexists; split; [reflexivity|exact HRe0]].
    destruct (with_plain se dev_pos) as [sg rg] eqn:Eg.
    destruct (with_plain_sim _ _ _ _ _ (sim_ok_ksim _ dev_pos_sim) HRe0 Eg) as (sh & Eh & HRg). rewrite Eh. clear Eg Eh.
    destruct rg as [fe|eg|pg]; [|inj H; eexists; split; [reflexivity|exact HRg]..].
    pose proof HRg as HRg0. destruct (R_same_inner _ _ HRg) as (ig & -> & Hig). cbn [set_inner ws_start ws_hashed ws_written ws_files] in *.
    destruct (fe <? ws_start sg); [inj H; eexists; split; [reflexivity|exact HRg0]|].
    match type of H with (match with_plain ?S1 _ with _ => _ end) = _ => set (T1 := S1) in * end.
    match goal with |- context [with_plain ?S2 _] => set (T2 := S2) in * end.
    assert (HRt : R T1 T2) by (subst T1 T2; destruct HRg0; constructor; cbn; auto).
    destruct (with_plain T1 _) as [si ri] eqn:Ei2.
    destruct (with_plain_sim _ _ _ _ _ (patch_sizes_ksim _ _) HRt Ei2) as (sj & Ej & HRi). rewrite Ej. clear Ei2 Ej.
    destruct ri as [ui|ei|pi]; inj H; eexists; (split; [reflexivity|]); auto.
    destruct HRi. constructor; cbn; auto.
  Qed.

  Lemma start_entry_sim s1 s2 name o raw s1' r : R s1 s2 -> start_entry enc crc s1 name o raw = (s1', r) ->
    exists s2', start_entry enc crc s2 name o raw = (s2', r) /\ R s1' s2'.
  Proof.
    intros HR H. unfold start_entry in *.
    destruct (65535 <? len name); [inj H; eexists; split; [reflexivity|exact HR]|].
    destruct (finish_file enc crc s1) as [sa ra] eqn:Ea. destruct (finish_file_sim _ _ _ _ HR Ea) as (sb & Eb & HRa). rewrite Eb. clear Ea Eb.
    destruct ra as [ua|ea|pa]; [|inj H; eexists; split; [reflexivity|exact HRa]..].
    destruct (with_plain sa dev_pos) as [sc rc] eqn:Ec.
    destruct (with_plain_sim _ _ _ _ _ (sim_ok_ksim _ dev_pos_sim) HRa Ec) as (sd & Ed & HRc). rewrite Ed. clear Ec Ed.
    destruct rc as [hs|ec|pc]; [|inj H; eexists; split; [reflexivity|exact HRc]..].
    cbv zeta in *. destruct (local_header_chunks _) as [cs|el|pl]; [|inj H; eexists; split; [reflexivity|exact HRc]..].
    destruct (with_plain sc _) as [se re] eqn:Ee.
    destruct (with_plain_sim _ _ _ _ _ (sim_ok_ksim _ (dev_write_chunks_sim cs)) HRc Ee) as (sf & Ef & HRe). rewrite Ef. clear Ee Ef.
    destruct re as [ue|ee|pe]; [|inj H; eexists; split; [reflexivity|exact HRe]..].
    destruct (with_plain se dev_pos) as [sg rg] eqn:Eg.
    destruct (with_plain_sim _ _ _ _ _ (sim_ok_ksim _ dev_pos_sim) HRe Eg) as (sh & Eh & HRg). rewrite Eh. clear Eg Eh.
    destruct rg as [he|eg|pg]; [|inj H; eexists; split; [reflexivity|exact HRg]..].
    pose proof HRg as HRg0. destruct (R_same_inner _ _ HRg) as (ig & -> & Hig). cbn [set_inner set_files set_stats ws_files ws_inner] in *.
    destruct (o_encrypt o) as [pw|].
    - destruct (ws_inner sg) as [l1|d1|d1 b1 k1|? ? ? ? ?] eqn:Ei; destruct ig as [l2|d2|d2 b2 k2|? ? ? ? ?]; try (now cbn in Hig);
        inj H; eexists; (split; [reflexivity|]); destruct HRg0; constructor; cbn in *; auto.
    - inj H. eexists. split; [reflexivity|]. destruct HRg0; constructor; cbn in *; auto.
  Qed.

  (* ---------- write: a single inner write is NOT chunk-independent (its count is what the sink took); write_all is *)
  Definition not_large {A} (r : res A) : Prop := r <> Err large_err.

  Lemma zw_write_buffered_sim s1 s2 buf s1' r : R s1 s2 ->
    (forall d, ws_inner s1 = WStorer d -> ws_to_extra s1 = true \/ ws_to_file s1 = false) ->
    zw_write s1 buf = (s1', r) -> exists s2', zw_write s2 buf = (s2', r) /\ R s1' s2'.
  Proof.
    intros HR Hns H. pose proof HR as HR0. destruct (R_same_inner _ _ HR) as (i2 & -> & Hi). unfold zw_write in *.
    cbn [set_inner ws_to_file ws_to_extra ws_inner ws_files ws_start ws_written ws_hashed] in *.
    destruct (ws_to_file s1) eqn:Etf; cbn [negb] in *; [|inj H; eexists; split; [reflexivity|exact HR0]].
    destruct (ws_inner s1) as [l1|d1|d1 b1 k1|m1 lv1 d1 e1 p1] eqn:Ei; destruct i2 as [l2|d2|d2 b2 k2|m2 lv2 d2 e2 p2]; try (now cbn in Hi).
    - inj H. eexists. split; [reflexivity|exact HR0].
    - destruct (Hns d1 eq_refl) as [Hx|Hx]; [|discriminate]. rewrite Hx in *. inj H. eexists. split; [reflexivity|].
      destruct HR0. constructor; cbn in *; auto.
    - destruct Hi as (Hd & -> & ->). destruct (ws_to_extra s1).
      + inj H. eexists. split; [reflexivity|]. destruct HR0. constructor; cbn in *; auto.
      + cbn [set_stats set_inner ws_files ws_written ws_inner] in *.
        match type of H with (if ?c then _ else _) = _ => destruct c end; inj H; eexists; (split; [reflexivity|]);
          destruct HR0; constructor; cbn in *; auto.
    - destruct Hi as (-> & -> & Hd & -> & ->). destruct (ws_to_extra s1).
      + inj H. eexists. split; [reflexivity|]. destruct HR0. constructor; cbn in *; auto.
      + cbn [set_stats set_inner ws_files ws_written ws_inner] in *.
        match type of H with (if ?c then _ else _) = _ => destruct c end; inj H; eexists; (split; [reflexivity|]);
          destruct HR0; constructor; cbn in *; auto.
  Qed.

  Definition indirect (s : wstate) : Prop := forall d, ws_inner s = WStorer d -> ws_to_extra s = true \/ ws_to_file s = false.

  Lemma zw_write_indirect s buf s' r : indirect s -> zw_write s buf = (s', r) -> indirect s'.
  Proof.
    intros Hq H. unfold zw_write in H.
    destruct (ws_to_file s) eqn:Etf; cbn [negb] in H; [|inj H; exact Hq].
    destruct (ws_inner s) as [l|d|d b k|m lv d e p] eqn:Ei.
    - inj H. exact Hq.
    - destruct (Hq d Ei) as [Hx|Hx]; [|congruence]. rewrite Hx in H. inj H. intros d0 Hd0. left. exact Hx.
    - destruct (ws_to_extra s) eqn:Ex.
      + inj H. intros d0 Hd0. cbn in Hd0. congruence.
      + cbn [set_stats set_inner ws_files ws_written ws_inner] in H.
        match type of H with (if ?c then _ else _) = _ => destruct c end; inj H; intros d0 Hd0; cbn in Hd0; discriminate.
    - destruct (ws_to_extra s) eqn:Ex.
      + inj H. intros d0 Hd0. cbn in Hd0. congruence.
      + cbn [set_stats set_inner ws_files ws_written ws_inner] in H.
        match type of H with (if ?c then _ else _) = _ => destruct c end; inj H; intros d0 Hd0; cbn in Hd0; discriminate.
  Qed.

  Lemma zw_write_all_fuel_indirect_sim : forall fuel s1 s2 buf s1' r, R s1 s2 -> indirect s1 ->
    zw_write_all_fuel fuel s1 buf = (s1', r) -> exists s2', zw_write_all_fuel fuel s2 buf = (s2', r) /\ R s1' s2'.
  Proof.
    induction fuel as [|f IH]; intros s1 s2 buf s1' r HR Hq H; destruct buf as [|b rest]; cbn [zw_write_all_fuel] in *;
      try (inj H; eexists; split; [reflexivity|exact HR]).
    destruct (zw_write s1 (b :: rest)) as [sa ra] eqn:Ea.
    destruct (zw_write_buffered_sim _ _ _ _ _ HR Hq Ea) as (sb & Eb & HRa). rewrite Eb.
    pose proof (zw_write_indirect _ _ _ _ Hq Ea) as Hqa.
    destruct ra as [k|e|p]; [|inj H; eexists; split; [reflexivity|exact HRa]..].
    destruct (k =? 0); [inj H; eexists; split; [reflexivity|exact HRa]|].
    exact (IH _ _ _ _ _ HRa Hqa H).
  Qed.

  Lemma zw_write_all_sim s1 s2 buf s1' r : R s1 s2 -> zw_write_all s1 buf = (s1', r) -> not_large r ->
    exists s2', zw_write_all s2 buf = (s2', r) /\ R s1' s2'.
  Proof.
    intros HR H Hnl.
    destruct (ws_inner s1) as [l1|d1|d1 b1 k1|m1 lv1 d1 e1 p1] eqn:Ei.
    1,3,4: (apply (zw_write_all_fuel_indirect_sim _ _ _ _ _ _ HR); [intros d0 Hd0; congruence|exact H]).
    destruct (ws_to_extra s1) eqn:Ex.
    { apply (zw_write_all_fuel_indirect_sim _ _ _ _ _ _ HR); [intros d0 Hd0; now left|exact H]. }
    destruct (ws_to_file s1) eqn:Etf.
    2:{ apply (zw_write_all_fuel_indirect_sim _ _ _ _ _ _ HR); [intros d0 Hd0; now right|exact H]. }
    (* an open stored entry: closed forms on both sides *)
    pose proof (r_inner _ _ HR) as Hi. rewrite Ei in Hi. destruct (ws_inner s2) as [l2|d2|d2 b2 k2|? ? ? ? ?] eqn:Ei2; try (now cbn in Hi).
    destruct Hi as (Hb & Hp & Hn1 & Hn2).
    assert (Hll : large_last s2 = large_last s1) by (unfold large_last; now rewrite (r_files _ _ HR)).
    destruct buf as [|x rest] eqn:Ebuf.
    { unfold zw_write_all in *. cbn [zw_write_all_fuel length] in *. inj H. eexists. split; [reflexivity|exact HR]. }
    rewrite <- Ebuf in *. assert (Hne : buf <> []) by (rewrite Ebuf; discriminate).
    destruct (N.le_gt_cases (ws_written s1 + len buf) ZIP64_BYTES_THR) as [Hle|Hgt].
    - destruct (zw_write_all_fuel_cf (S (length buf)) buf s1 d1 Etf Ex Ei Hn1 (or_introl Hle) (Nat.lt_succ_diag_r _)) as (p1 & Hp1 & E1).
      assert (Hle2 : ws_written s2 + len buf <= ZIP64_BYTES_THR) by (rewrite <- (r_written _ _ HR); exact Hle).
      destruct (zw_write_all_fuel_cf (S (length buf)) buf s2 d2 (eq_trans (eq_sym (r_tf _ _ HR)) Etf) (eq_trans (eq_sym (r_te _ _ HR)) Ex) Ei2 Hn2 (or_introl Hle2) (Nat.lt_succ_diag_r _)) as (p2 & Hp2 & E2).
      unfold zw_write_all in *. rewrite E1 in H. rewrite E2. inj H. eexists. split; [reflexivity|].
      destruct HR. unfold wrote. constructor; cbn; auto; try congruence. rewrite Hb, Hp. now apply drel_mk.
    - destruct (large_last s1) eqn:Ell.
      + destruct (zw_write_all_fuel_cf (S (length buf)) buf s1 d1 Etf Ex Ei Hn1 (or_intror Ell) (Nat.lt_succ_diag_r _)) as (p1 & Hp1 & E1).
        destruct (zw_write_all_fuel_cf (S (length buf)) buf s2 d2 (eq_trans (eq_sym (r_tf _ _ HR)) Etf) (eq_trans (eq_sym (r_te _ _ HR)) Ex) Ei2 Hn2 (or_intror Hll) (Nat.lt_succ_diag_r _)) as (p2 & Hp2 & E2).
        unfold zw_write_all in *. rewrite E1 in H. rewrite E2. inj H. eexists. split; [reflexivity|].
        destruct HR. unfold wrote. constructor; cbn; auto; try congruence. rewrite Hb, Hp. now apply drel_mk.
      + exfalso. destruct (zw_write_all_fuel_large (S (length buf)) buf s1 d1 Etf Ex Ei Hn1 Hne Hgt Ell (Nat.lt_succ_diag_r _)) as (sx & Ex1).
        unfold zw_write_all in H. rewrite Ex1 in H. inj H. now apply Hnl.
  Qed.

  Lemma start_file_sim s1 s2 name o s1' r : R s1 s2 -> start_file enc crc s1 name o = (s1', r) ->
    exists s2', start_file enc crc s2 name o = (s2', r) /\ R s1' s2'.
  Proof.
    intros HR H. unfold start_file in *. cbv zeta in *.
    destruct (start_entry enc crc s1 name _ None) as [sa ra] eqn:Ea. destruct (start_entry_sim _ _ _ _ _ _ _ HR Ea) as (sb & Eb & HRa). rewrite Eb.
    destruct ra as [ua|ea|pa]; [|inj H; eexists; split; [reflexivity|exact HRa]..].
    destruct (switch_to enc sa _ _) as [sc rc] eqn:Ec. destruct (switch_to_sim _ _ _ _ _ _ HRa Ec) as (sd & Ed & HRc). rewrite Ed.
    destruct rc as [uc|ec|pc]; inj H; eexists; (split; [reflexivity|]); auto. destruct HRc. constructor; cbn; auto.
  Qed.

  Lemma start_extra_sim s1 s2 name o s1' r : R s1 s2 -> start_file_with_extra_data enc crc s1 name o = (s1', r) ->
    exists s2', start_file_with_extra_data enc crc s2 name o = (s2', r) /\ R s1' s2'.
  Proof.
    intros HR H. unfold start_file_with_extra_data in *. cbv zeta in *.
    destruct (start_entry enc crc s1 name _ None) as [sa ra] eqn:Ea. destruct (start_entry_sim _ _ _ _ _ _ _ HR Ea) as (sb & Eb & HRa). rewrite Eb.
    destruct ra as [ua|ea|pa]; [|inj H; eexists; split; [reflexivity|exact HRa]..].
    cbn [set_flags ws_files] in *. rewrite <- (r_files _ _ HRa).
    destruct (last_file (ws_files sa)); inj H; eexists; (split; [reflexivity|]); destruct HRa; constructor; cbn; auto.
  Qed.

  Lemma end_local_sim s1 s2 s1' r : R s1 s2 -> end_local_start_central enc s1 = (s1', r) ->
    exists s2', end_local_start_central enc s2 = (s2', r) /\ R s1' s2'.
  Proof.
    intros HR H. unfold end_local_start_central in *.
    destruct (end_extra_data enc s1) as [sa ra] eqn:Ea. destruct (end_extra_data_sim _ _ _ _ HR Ea) as (sb & Eb & HRa). rewrite Eb.
    destruct ra as [va|ea|pa]; inj H; eexists; (split; [reflexivity|]); auto. destruct HRa. constructor; cbn; auto; congruence.
  Qed.

  Lemma not_large_conv {A B} (e : err) : not_large (@Err A e) -> not_large (@Err B e).
  Proof. unfold not_large. intros H X. apply H. now inj X. Qed.

  Lemma start_aligned_sim s1 s2 name o align s1' r : R s1 s2 -> start_file_aligned enc crc s1 name o align = (s1', r) -> not_large r ->
    exists s2', start_file_aligned enc crc s2 name o align = (s2', r) /\ R s1' s2'.
  Proof.
    intros HR H Hnl. unfold start_file_aligned in *.
    destruct (start_file_with_extra_data enc crc s1 name o) as [sa ra] eqn:Ea. destruct (start_extra_sim _ _ _ _ _ _ HR Ea) as (sb & Eb & HRa). rewrite Eb.
    destruct ra as [dst|ea|pa]; [|inj H; eexists; split; [reflexivity|exact HRa]..].
    match type of H with (let (_, _) := ?X in _) = _ => destruct X as [sc rc] eqn:Ec end.
    match goal with |- exists _, (let (_, _) := ?Y in _) = _ /\ _ => assert (P : not_large rc -> exists sd, Y = (sd, rc) /\ R sc sd) end.
    { intro Hn. destruct ((1 <? align) && negb (dst mod align =? 0)); [|inj Ec; eexists; split; [reflexivity|exact HRa]].
      cbv zeta in *.
      destruct (zw_write_all sa _) as [t1 q1] eqn:E1.
      assert (N1 : not_large q1) by (destruct q1; try discriminate; inj Ec; exact Hn).
      destruct (zw_write_all_sim _ _ _ _ _ HRa E1 N1) as (u1 & F1 & HR1). rewrite F1.
      destruct q1 as [x1|e1|p1]; [|inj Ec; eexists; split; [reflexivity|exact HR1]..].
      destruct (zw_write_all t1 _) as [t2 q2] eqn:E2.
      assert (N2 : not_large q2) by (destruct q2; try discriminate; inj Ec; exact Hn).
      destruct (zw_write_all_sim _ _ _ _ _ HR1 E2 N2) as (u2 & F2 & HR2). rewrite F2.
      destruct q2 as [x2|e2|p2]; [|inj Ec; eexists; split; [reflexivity|exact HR2]..].
      destruct (zw_write_all t2 _) as [t3 q3] eqn:E3.
      assert (N3 : not_large q3) by (destruct q3; try discriminate; inj Ec; exact Hn).
      destruct (zw_write_all_sim _ _ _ _ _ HR2 E3 N3) as (u3 & F3 & HR3). rewrite F3.
      destruct q3 as [x3|e3|p3]; [|inj Ec; eexists; split; [reflexivity|exact HR3]..].
      destruct (end_local_start_central enc t3) as [t4 q4] eqn:E4. destruct (end_local_sim _ _ _ _ HR3 E4) as (u4 & F4 & HR4). rewrite F4.
      destruct q4 as [x4|e4|p4]; [|inj Ec; eexists; split; [reflexivity|exact HR4]..].
      destruct (x4 mod align =? 0); inj Ec; eexists; (split; [reflexivity|exact HR4]). }
    assert (Hn : not_large rc).
    { destruct rc as [uc|ec|pc]; try discriminate. inj H. exact (not_large_conv _ Hnl). }
    destruct (P Hn) as (sd & Ed & HRc). rewrite Ed. clear Ec Ed P.
    destruct rc as [uc|ec|pc]; [|inj H; eexists; split; [reflexivity|exact HRc]..].
    destruct (end_extra_data enc sc) as [se re] eqn:Ee. destruct (end_extra_data_sim _ _ _ _ HRc Ee) as (sf & Ef & HRe). rewrite Ef.
    destruct re; inj H; eexists; (split; [reflexivity|exact HRe]).
  Qed.

  Lemma add_directory_sim s1 s2 name o s1' r : R s1 s2 -> add_directory enc crc s1 name o = (s1', r) ->
    exists s2', add_directory enc crc s2 name o = (s2', r) /\ R s1' s2'.
  Proof.
    intros HR H. unfold add_directory in *. cbv zeta in *.
    destruct (start_entry enc crc s1 _ _ None) as [sa ra] eqn:Ea. destruct (start_entry_sim _ _ _ _ _ _ _ HR Ea) as (sb & Eb & HRa). rewrite Eb.
    destruct ra as [ua|ea|pa]; inj H; eexists; (split; [reflexivity|]); auto. destruct HRa. constructor; cbn; auto.
  Qed.

  Lemma add_symlink_sim s1 s2 name target o s1' r : R s1 s2 -> add_symlink enc crc s1 name target o = (s1', r) -> not_large r ->
    exists s2', add_symlink enc crc s2 name target o = (s2', r) /\ R s1' s2'.
  Proof.
    intros HR H Hnl. unfold add_symlink in *. cbv zeta in *.
    destruct (start_entry enc crc s1 _ _ None) as [sa ra] eqn:Ea. destruct (start_entry_sim _ _ _ _ _ _ _ HR Ea) as (sb & Eb & HRa). rewrite Eb.
    destruct ra as [ua|ea|pa]; [|inj H; eexists; split; [reflexivity|exact HRa]..].
    assert (HRf : R (set_flags sa true (ws_to_extra sa) (ws_central_only sa) (ws_raw sa)) (set_flags sb true (ws_to_extra sb) (ws_central_only sb) (ws_raw sb)))
      by (destruct HRa; constructor; cbn; auto).
    destruct (zw_write_all _ target) as [sc rc] eqn:Ec.
    assert (Hn : not_large rc) by (destruct rc; try discriminate; inj H; exact Hnl).
    destruct (zw_write_all_sim _ _ _ _ _ HRf Ec Hn) as (sd & Ed & HRc). rewrite Ed.
    destruct rc; inj H; eexists; (split; [reflexivity|]); auto. destruct HRc. constructor; cbn; auto.
  Qed.

  Lemma raw_copy_sim s1 s2 src raw name s1' r : R s1 s2 -> raw_copy enc crc s1 src raw name = (s1', r) -> not_large r ->
    exists s2', raw_copy enc crc s2 src raw name = (s2', r) /\ R s1' s2'.
  Proof.
    intros HR H Hnl. unfold raw_copy in *. cbv zeta in *.
    destruct (start_entry enc crc s1 name _ _) as [sa ra] eqn:Ea. destruct (start_entry_sim _ _ _ _ _ _ _ HR Ea) as (sb & Eb & HRa). rewrite Eb.
    destruct ra as [ua|ea|pa]; [|inj H; eexists; split; [reflexivity|exact HRa]..].
    assert (HRf : R (set_flags sa true (ws_to_extra sa) (ws_central_only sa) true) (set_flags sb true (ws_to_extra sb) (ws_central_only sb) true))
      by (destruct HRa; constructor; cbn; auto).
    exact (zw_write_all_sim _ _ _ _ _ HRf H Hnl).
  Qed.

  (* ---------- finalize / finish / drop *)
  Lemma write_central_all_ksim : forall fs, ksim (fun d => write_central_all d fs).
  Proof.
    induction fs as [|f fs IH]; intros d1 d2 Hd; cbn [write_central_all].
    - eexists. eexists. eexists. auto.
    - destruct (central_header_chunks f) as [cs|e|p]; [|eexists; eexists; eexists; auto..].
      destruct (dev_write_chunks_sim cs d1 d2 Hd) as (a1 & a2 & v & E1 & E2 & Ha). cbv beta in E1, E2. rewrite E1, E2.
      exact (IH a1 a2 Ha).
  Qed.

  Lemma write_cd_footer_ksim fs c : ksim (write_cd_footer fs c).
  Proof.
    intros d1 d2 Hd. unfold write_cd_footer.
    destruct (dev_pos_sim d1 d2 Hd) as (a1 & a2 & cs & -> & -> & Ha).
    destruct (write_central_all_ksim fs a1 a2 Ha) as (b1 & b2 & r & E1 & E2 & Hb). cbv beta in E1, E2. rewrite E1, E2.
    destruct r as [u|e|p]; [|eexists; eexists; eexists; auto..].
    destruct (dev_pos_sim b1 b2 Hb) as (c1 & c2 & ce & -> & -> & Hc).
    destruct (ce <? cs); [eexists; eexists; eexists; auto|].
    match goal with |- context [dev_write_chunks c1 ?x] => destruct (dev_write_chunks_sim x c1 c2 Hc) as (e1 & e2 & v & Ee1 & Ee2 & He) end.
    cbv beta in Ee1, Ee2. rewrite Ee1, Ee2. eexists. eexists. eexists. auto.
  Qed.

  Lemma finalize_k_ksim fs c : ksim (fun d =>
          match write_cd_footer fs c d with
          | (d1, Ok central_start) =>
              match dev_pos d1 with
              | (d2, Ok footer_end) =>
                  match dev_seek_end d2 with
                  | (d3, Ok sink_end) =>
                      if footer_end <? sink_end then
                        if footer_end <? central_start then (d3, Panic PArith) else
                        match dev_seek d3 (sink_end - (footer_end - central_start)) with
                        | (d4, Ok _) =>
                            match write_cd_footer fs c d4 with
                            | (d5, Ok _) => (d5, Ok tt)
                            | (d5, Err e) => (d5, Err e)
                            | (d5, Panic p) => (d5, Panic p)
                            end
                        | bad => bad
                        end
                      else (d3, Ok tt)
                  | (d3, Err e) => (d3, Err e)
                  | (d3, Panic p) => (d3, Panic p)
                  end
              | (d2, Err e) => (d2, Err e)
              | (d2, Panic p) => (d2, Panic p)
              end
          | (d1, Err e) => (d1, Err e)
          | (d1, Panic p) => (d1, Panic p)
          end).
  Proof.
    intros d1 d2 Hd.
    destruct (write_cd_footer_ksim fs c d1 d2 Hd) as (a1 & a2 & r & -> & -> & Ha).
    destruct r as [cs|e|p]; [|eexists; eexists; eexists; auto..].
    destruct (dev_pos_sim a1 a2 Ha) as (b1 & b2 & fe & -> & -> & Hb).
    destruct (dev_seek_end_sim b1 b2 Hb) as (c1 & c2 & se & -> & -> & Hc).
    destruct (fe <? se); [|eexists; eexists; eexists; auto].
    destruct (fe <? cs); [eexists; eexists; eexists; auto|].
    destruct (dev_seek_sim (se - (fe - cs)) c1 c2 Hc) as (e1 & e2 & v & -> & -> & He).
    destruct (write_cd_footer_ksim fs c e1 e2 He) as (f1 & f2 & r2 & -> & -> & Hf).
    destruct r2; eexists; eexists; eexists; auto.
  Qed.

  Lemma finalize_sim s1 s2 s1' r : R s1 s2 -> finalize enc crc s1 = (s1', r) ->
    exists s2', finalize enc crc s2 = (s2', r) /\ R s1' s2'.
  Proof.
    intros HR H. unfold finalize in *. rewrite <- (r_comment _ _ HR).
    destruct (65535 <? len (ws_comment s1)); [inj H; eexists; split; [reflexivity|exact HR]|].
    destruct (finish_file enc crc s1) as [sa ra] eqn:Ea. destruct (finish_file_sim _ _ _ _ HR Ea) as (sb & Eb & HRa). rewrite Eb.
    destruct ra as [ua|ea|pa]; [|inj H; eexists; split; [reflexivity|exact HRa]..].
    rewrite <- (r_files _ _ HRa), <- (r_comment _ _ HRa).
    exact (with_plain_sim _ _ _ _ _ (finalize_k_ksim _ _) HRa H).
  Qed.

  Lemma finish_sim s1 s2 s1' r : R s1 s2 -> finish enc crc s1 = (s1', r) ->
    exists s2', finish enc crc s2 = (s2', r) /\ R s1' s2'.
  Proof.
    intros HR H. unfold finish in *.
    destruct (finalize enc crc s1) as [sa ra] eqn:Ea. destruct (finalize_sim _ _ _ _ HR Ea) as (sb & Eb & HRa). rewrite Eb.
    destruct ra as [ua|ea|pa]; [|inj H; eexists; split; [reflexivity|exact HRa]..].
    pose proof (r_inner _ _ HRa) as Hi.
    destruct (ws_inner sa) as [l1|d1|d1 b1 k1|? ? ? ? ?]; destruct (ws_inner sb) as [l2|d2|d2 b2 k2|? ? ? ? ?]; try (now cbn in Hi);
      inj H; try (eexists; split; [reflexivity|exact HRa]).
    destruct Hi as (Hb & Hp & Hn1 & Hn2). rewrite Hb. eexists. split; [reflexivity|].
    apply R_set_inner; [exact HRa|]. cbn. repeat split; auto.
  Qed.

  Lemma drop_inner_rel i1 i2 : irel i1 i2 -> irel (drop_inner enc i1) (drop_inner enc i2).
  Proof.
    intro Hi. destruct i1 as [l1|d1|d1 b1 k1|m1 lv1 d1 e1 p1]; destruct i2 as [l2|d2|d2 b2 k2|m2 lv2 d2 e2 p2]; try (now cbn in Hi);
      cbn [drop_inner]; try (exact (irel_close _ _ Hi)).
    destruct Hi as (-> & -> & Hd & -> & ->). destruct e2 as [x|]; [cbn; exact Hd|].
    destruct m2; try (cbn; exact Hd);
      match goal with |- context [dev_write_all d1 ?x] =>
        destruct (dev_write_all_sim x d1 d2 Hd) as (a1 & a2 & v & E1 & E2 & Ha); cbv beta in E1, E2; rewrite E1, E2; cbn; exact Ha end.
  Qed.

  Lemma drop_sim s1 s2 s1' r : R s1 s2 -> drop_writer enc crc s1 = (s1', r) ->
    exists s2', drop_writer enc crc s2 = (s2', r) /\ R s1' s2'.
  Proof.
    intros HR H.
    assert (U : forall s, drop_writer enc crc s = if is_closed (ws_inner s) then (s, Ok tt) else
                 match finalize enc crc s with
                 | (s1, Panic p) => (s1, Panic p)
                 | (s1, _) => (set_inner s1 (drop_inner enc (ws_inner s1)), Ok tt)
                 end) by (intro s; unfold drop_writer; destruct (ws_inner s); reflexivity).
    rewrite U in *. rewrite <- (irel_closed _ _ (r_inner _ _ HR)).
    destruct (is_closed (ws_inner s1)); [inj H; eexists; split; [reflexivity|exact HR]|].
    destruct (finalize enc crc s1) as [sa ra] eqn:Ea. destruct (finalize_sim _ _ _ _ HR Ea) as (sb & Eb & HRa). rewrite Eb.
    assert (HRd : R (set_inner sa (drop_inner enc (ws_inner sa))) (set_inner sb (drop_inner enc (ws_inner sb))))
      by (apply R_set_inner; [exact HRa|apply drop_inner_rel; exact (r_inner _ _ HRa)]).
    destruct ra; inj H; eexists; (split; [reflexivity|]); auto.
  Qed.

  (* ---------- calls and programs *)
  Definition call_not_large (r : wresult) : Prop :=
    match r with RUnit x => not_large x | RNum x => not_large x | RBytes x => not_large x end.

  Lemma do_call_sim s1 s2 c s1' r : R s1 s2 -> do_call enc crc s1 c = (s1', r) -> call_not_large r ->
    exists s2', do_call enc crc s2 c = (s2', r) /\ R s1' s2'.
  Proof.
    intros HR H Hnl. destruct c; cbn [do_call] in *.
    - destruct (start_file enc crc s1 name o) as [sa ra] eqn:E. inj H. destruct (start_file_sim _ _ _ _ _ _ HR E) as (sb & -> & HRa). eauto.
    - destruct (zw_write_all s1 data) as [sa ra] eqn:E. inj H. destruct (zw_write_all_sim _ _ _ _ _ HR E Hnl) as (sb & -> & HRa). eauto.
    - destruct (start_file_with_extra_data enc crc s1 name o) as [sa ra] eqn:E. inj H. destruct (start_extra_sim _ _ _ _ _ _ HR E) as (sb & -> & HRa). eauto.
    - destruct (start_file_aligned enc crc s1 name o align) as [sa ra] eqn:E. inj H. destruct (start_aligned_sim _ _ _ _ _ _ _ HR E Hnl) as (sb & -> & HRa). eauto.
    - destruct (end_local_start_central enc s1) as [sa ra] eqn:E. inj H. destruct (end_local_sim _ _ _ _ HR E) as (sb & -> & HRa). eauto.
    - destruct (end_extra_data enc s1) as [sa ra] eqn:E. inj H. destruct (end_extra_data_sim _ _ _ _ HR E) as (sb & -> & HRa). eauto.
    - destruct (add_directory enc crc s1 name o) as [sa ra] eqn:E. inj H. destruct (add_directory_sim _ _ _ _ _ _ HR E) as (sb & -> & HRa). eauto.
    - destruct (add_symlink enc crc s1 name target o) as [sa ra] eqn:E. inj H. destruct (add_symlink_sim _ _ _ _ _ _ _ HR E Hnl) as (sb & -> & HRa). eauto.
    - inj H. eexists. split; [reflexivity|]. destruct HR. constructor; cbn; auto.
    - destruct (raw_copy enc crc s1 src raw name) as [sa ra] eqn:E. inj H. destruct (raw_copy_sim _ _ _ _ _ _ _ HR E Hnl) as (sb & -> & HRa). eauto.
    - destruct (finish enc crc s1) as [sa ra] eqn:E. inj H. destruct (finish_sim _ _ _ _ HR E) as (sb & -> & HRa). eauto.
    - destruct (drop_writer enc crc s1) as [sa ra] eqn:E. inj H. destruct (drop_sim _ _ _ _ HR E) as (sb & -> & HRa). eauto.
  Qed.

  Theorem run_calls_sim : forall cs s1 s2 s1' rs, R s1 s2 -> run_calls enc crc s1 cs = (s1', rs) -> Forall call_not_large rs ->
    exists s2', run_calls enc crc s2 cs = (s2', rs) /\ R s1' s2'.
  Proof.
    induction cs as [|c cs IH]; intros s1 s2 s1' rs HR H Hnl; cbn [run_calls] in *.
    - inj H. eexists. split; [reflexivity|exact HR].
    - destruct (do_call enc crc s1 c) as [sa ra] eqn:Ea. destruct (run_calls enc crc sa cs) as [sc rc] eqn:Ec. inj H.
      inversion Hnl as [|? ? Hn1 Hn2]. subst.
      destruct (do_call_sim _ _ _ _ _ HR Ea Hn1) as (sb & Eb & HRa). rewrite Eb.
      destruct (IH _ _ _ _ HRa Ec Hn2) as (sd & Ed & HRc). rewrite Ed. eexists. split; [reflexivity|exact HRc].
  Qed.

  Lemma R_sink s1 s2 : R s1 s2 -> sink_bytes s1 = sink_bytes s2.
  Proof.
    intros HR. pose proof (irel_dev_of _ _ (r_inner _ _ HR)) as Ho. unfold sink_bytes.
    destruct (dev_of (ws_inner s1)), (dev_of (ws_inner s2)); cbn in Ho; try tauto. destruct Ho as (-> & _). reflexivity.
  Qed.
End Sim.

(* two fresh (or appended) writers over sinks with different failure-free plans are related *)
Lemma R_new p1 p2 : nofail p1 -> nofail p2 -> R (new_writer p1) (new_writer p2).
Proof. intros. constructor; cbn; auto. repeat split; auto. Qed.
Lemma R_new_append data p1 p2 s1 : nofail p1 -> nofail p2 -> new_append data p1 = Ok s1 ->
  exists s2, new_append data p2 = Ok s2 /\ R s1 s2.
Proof.
  intros H1 H2. unfold new_append.
  destruct (find_eocd data) as [[e cde]| |]; cbn [bind]; try discriminate.
  destruct (negb (e_disk e =? e_disk_cd e)); [discriminate|].
  destruct (get_directory_counts data e cde) as [[[ao ds] n]| |]; cbn [bind]; try discriminate.
  destruct (cde <? ds); [discriminate|].
  destruct (parse_cd (S (length data)) data n ds ao) as [files| |]; cbn [bind]; try discriminate.
  intro H. inj H. eexists. split; [reflexivity|]. constructor; cbn; auto. repeat split; auto.
Qed.
