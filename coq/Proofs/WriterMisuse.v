(* Proofs/WriterMisuse.v — C12: documented misuse of the writer returns an error. *)
From Coq Require Import ZArith.
From ZipV Require Import Base.Bytes Base.Outcome Gen.CompressionGen Gen.WriteGen Model.Readers Model.Reader Model.Writer.
Open Scope N_scope.

Lemma write_needs_file s buf : ws_to_file s = false -> zw_write s buf = (s, Err (EIo KOther INoFileStarted)).
Proof. intro H. unfold zw_write. now rewrite H. Qed.

Lemma end_extra_needs_begin enc s : ws_to_extra s = false -> end_extra_data enc s = (s, Err (EIo KOther INotExtra)).
Proof. intro H. unfold end_extra_data. now rewrite H. Qed.

Lemma switch_closed enc s m lvl : is_closed (ws_inner s) = true -> switch_to enc s m lvl = (s, Err closed_err).
Proof. intro H. unfold switch_to. destruct (ws_inner s); try discriminate. reflexivity. Qed.

Lemma finish_file_closed enc crc s : is_closed (ws_inner s) = true -> ws_to_extra s = false ->
  finish_file enc crc s = (s, Err closed_err).
Proof. intros H E. unfold finish_file. rewrite E. now rewrite switch_closed. Qed.

(* after the writer is closed: write, start_*, add_*, finish all return the closed error *)
Lemma closed_write s buf : is_closed (ws_inner s) = true -> ws_to_file s = true -> zw_write s buf = (s, Err closed_err).
Proof. intros H E. unfold zw_write. rewrite E. destruct (ws_inner s); try discriminate. reflexivity. Qed.

Lemma closed_start_entry enc crc s name o raw : is_closed (ws_inner s) = true -> ws_to_extra s = false -> len name <= 65535 ->
  start_entry enc crc s name o raw = (s, Err closed_err).
Proof.
  intros H E Hn. unfold start_entry. assert ((65535 <? len name) = false) as -> by lia.
  now rewrite finish_file_closed.
Qed.

Lemma closed_finish enc crc s : is_closed (ws_inner s) = true -> ws_to_extra s = false -> len (ws_comment s) <= 65535 ->
  finish enc crc s = (s, Err closed_err).
Proof.
  intros H E Hc. unfold finish, finalize. assert ((65535 <? len (ws_comment s)) = false) as -> by lia.
  now rewrite finish_file_closed.
Qed.

Lemma closed_end_extra enc s : is_closed (ws_inner s) = true -> ws_to_extra s = true -> end_extra_data enc s = (s, Err closed_err).
Proof. intros H E. unfold end_extra_data. rewrite E. destruct (ws_inner s); try discriminate. reflexivity. Qed.

(* switching a plain storer to an unsupported method, or to a compressing method with a level outside
   its range, is an error and closes the writer *)
Lemma switch_bad enc s d m lvl : ws_inner s = WStorer d ->
  match m with
  | CompressionMethod_Stored => True
  | CompressionMethod_Aes => switch_to enc s m lvl = (set_inner s (WClosed (Some d)), Err (EUnsupported MAesWrite))
  | CompressionMethod_Unsupported _ => switch_to enc s m lvl = (set_inner s (WClosed (Some d)), Err (EUnsupported MUnsupportedCompression))
  | _ => level_ok m lvl = None -> switch_to enc s m lvl = (set_inner s (WClosed (Some d)), Err (EUnsupported MUnsupportedLevel))
  end.
Proof.
  intro H. unfold switch_to. rewrite H. cbn [cur_method finish_comp].
  destruct m; cbn [CompressionMethod_eqb]; try exact I; try reflexivity; intro Hl; now rewrite Hl.
Qed.

Lemma level_ok_range m lvl l : level_ok m lvl = Some l ->
  match m with
  | CompressionMethod_Deflated => (0 <= l <= 9)%Z
  | CompressionMethod_Bzip2 => (1 <= l <= 9)%Z
  | CompressionMethod_Zstd => (-7 <= l <= 22)%Z
  | _ => False
  end.
Proof.
  unfold level_ok. destruct m; try discriminate;
    match goal with |- context [if ?c then _ else _] => destruct c eqn:E end; try discriminate; intros [= <-]; lia.
Qed.

(* extra data validation: total length incl. the local ZIP64 reservation fits 16 bits; the first record must
   be complete, must not be the ZIP64 id and must not be a reserved id *)
Lemma extra_validation_len f : validate_extra_data f = Ok tt -> len (w_extra f) + (if w_large f then 20 else 0) <= 65535.
Proof. unfold validate_extra_data. destruct (65535 <? _) eqn:E; [discriminate|]. intros _. lia. Qed.

Lemma extra_validation_first f : validate_extra_data f = Ok tt -> w_extra f <> [] ->
  4 <= len (w_extra f) /\ unle (take 2 (w_extra f)) <> 1 /\ reserved_id (unle (take 2 (w_extra f))) = false /\
  unle (take 2 (drop 2 (w_extra f))) <= len (w_extra f) - 4.
Proof.
  unfold validate_extra_data. destruct (65535 <? _); [discriminate|].
  destruct (w_extra f) as [|b r] eqn:Ex; [contradiction|]. intros H _. cbn [validate_records] in H.
  destruct (len (b :: r) <? 4) eqn:E1; [discriminate|].
  destruct (unle (take 2 (b :: r)) =? 1) eqn:E2; [discriminate|].
  destruct (reserved_id (unle (take 2 (b :: r)))) eqn:E3; [discriminate|].
  destruct (len (b :: r) - 4 <? unle (take 2 (drop 2 (b :: r)))) eqn:E4; [discriminate|].
  repeat split; lia.
Qed.
