(* Proofs/FaultProofs.v — C11: the plan-driven sink never panics; failures are errors. *)
From Coq Require Import ZArith.
From ZipV Require Import Base.Bytes Base.Outcome Model.Readers Model.Reader Model.Writer.
Open Scope N_scope.

Lemma dev_write_all_fail d bs pl : bs <> [] -> d_plan d = WFail :: pl ->
  dev_write_all d bs = ({| d_buf := d_buf d; d_pos := d_pos d; d_plan := pl |}, io_fail).
Proof.
  intros Hne Hp. unfold dev_write_all. destruct bs as [|b r]; [congruence|].
  cbn [dev_write_all_fuel length]. unfold dev_write. rewrite Hp. reflexivity.
Qed.

Lemma dev_write_no_panic d bs d' p : dev_write d bs <> (d', Panic p).
Proof. unfold dev_write, io_fail. destruct (d_plan d) as [|[n|] pl]; intro H; discriminate. Qed.

Lemma dev_write_all_fuel_no_panic fuel : forall d bs d' p, (length bs < fuel)%nat -> dev_write_all_fuel fuel d bs <> (d', Panic p).
Proof.
  induction fuel as [|f IH]; intros d bs d' p Hf; [lia|].
  destruct bs as [|b r]; cbn [dev_write_all_fuel]; [intro H; discriminate|].
  destruct (dev_write d (b :: r)) as [d1 [k|e|q]] eqn:E.
  - destruct (k =? 0) eqn:Ek; [intro H; discriminate|].
    apply IH. rewrite drop_skipn, skipn_length. cbn [length] in *. apply N.eqb_neq in Ek. lia.
  - intro H; discriminate.
  - exfalso. exact (dev_write_no_panic _ _ _ _ E).
Qed.

Lemma dev_write_all_no_panic d bs d' p : dev_write_all d bs <> (d', Panic p).
Proof. unfold dev_write_all. apply dev_write_all_fuel_no_panic. lia. Qed.

Lemma dev_event_no_panic d d' p : dev_event d <> (d', Panic p).
Proof. unfold dev_event, io_fail. destruct (d_plan d) as [|[n|] pl]; intro H; discriminate. Qed.

Lemma dev_pos_no_panic d d' p : dev_pos d <> (d', Panic p).
Proof.
  unfold dev_pos. destruct (dev_event d) as [d1 [u|e|q]] eqn:E; try (intro H; discriminate).
  exfalso. exact (dev_event_no_panic _ _ _ E).
Qed.

Lemma dev_seek_no_panic d q d' p : dev_seek d q <> (d', Panic p).
Proof.
  unfold dev_seek. destruct (dev_event d) as [d1 [u|e|q']] eqn:E; try (intro H; discriminate).
  exfalso. exact (dev_event_no_panic _ _ _ E).
Qed.

Lemma dev_never_panics d bs :
  (forall d' p, dev_write_all d bs <> (d', Panic p)) /\ (forall d' p, dev_pos d <> (d', Panic p)) /\
  (forall d' p q, dev_seek d q <> (d', Panic p)) /\ (forall d' p, dev_flush d <> (d', Panic p)).
Proof.
  repeat split; intros.
  - apply dev_write_all_no_panic.
  - apply dev_pos_no_panic.
  - apply dev_seek_no_panic.
  - apply dev_event_no_panic.
Qed.

Lemma dev_write_chunks_no_panic cs : forall d d' r, dev_write_chunks d cs = (d', r) ->
  match r with Panic _ => False | _ => True end.
Proof.
  induction cs as [|c rest IH]; intros d d' r H; cbn [dev_write_chunks] in H.
  - injection H as _ <-. exact I.
  - destruct (dev_write_all d c) as [d1 [u|e|q]] eqn:E.
    + eapply IH; exact H.
    + injection H as _ <-. exact I.
    + exfalso. exact (dev_write_all_no_panic _ _ _ _ E).
Qed.
