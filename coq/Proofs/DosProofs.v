(* Proofs/DosProofs.v — C18: DOS date/time packing, over the *generated* definitions
   Gen.TypesGen.DateTime_* (re-proved on every run against what the source says now).
   The 2^32 product is covered by separability (date fields depend on the date word only,
   time fields on the time word only) plus two complete sweeps of 2^16 values each. *)
From ZipV Require Import Base.Bytes Base.Outcome Base.Sweep Gen.GenLib Gen.TypesGen Model.Dos.
Open Scope N_scope.
Open Scope bool_scope.

Definition dfields (dt : DateTime) := (DateTime_year dt, DateTime_month dt, DateTime_day dt).
Definition tfields (dt : DateTime) := (DateTime_hour dt, DateTime_minute dt, DateTime_second dt).
Definition eq3 (a b : N * N * N) : bool :=
  let '(a1, a2, a3) := a in let '(b1, b2, b3) := b in (a1 =? b1) && (a2 =? b2) && (a3 =? b3).
Lemma eq3_eq a b : eq3 a b = true -> a = b.
Proof. destruct a as [[a1 a2] a3], b as [[b1 b2] b3]; cbn [eq3]. intro H. f_equal; [f_equal|]; lia. Qed.

Lemma some_inj {A} (a b : A) : Some a = Some b -> a = b.
Proof. congruence. Qed.

Lemma dt_eta a b : dfields a = dfields b -> tfields a = tfields b -> a = b.
Proof.
  destruct a as [a1 a2 a3 a4 a5 a6], b as [b1 b2 b3 b4 b5 b6]; unfold dfields, tfields;
    cbn [DateTime_year DateTime_month DateTime_day DateTime_hour DateTime_minute DateTime_second];
    intros [= -> -> ->] [= -> -> ->]; reflexivity.
Qed.

(* ---- separability of the generated functions (structure-insensitive proofs) *)
Ltac kill_obind :=
  repeat (match goal with
          | |- context [obind ?x _] => destruct x
          | H : context [obind ?x _] |- _ => destruct x
          end; cbn [obind] in * ).

Lemma from_msdos_dfields d t :
  option_map dfields (DateTime_from_msdos d t) = option_map dfields (DateTime_from_msdos d 0).
Proof.
  unfold DateTime_from_msdos; cbv zeta; kill_obind;
    cbn [obind option_map dfields DateTime_year DateTime_month DateTime_day]; reflexivity.
Qed.

Lemma from_msdos_tfields d t a b :
  DateTime_from_msdos d t = Some a -> DateTime_from_msdos 0 t = Some b -> tfields a = tfields b.
Proof.
  unfold DateTime_from_msdos; cbv zeta; intros Ha Hb; kill_obind; cbn [obind] in *;
    try discriminate. injection Ha as <-. injection Hb as <-.
  cbn [tfields DateTime_hour DateTime_minute DateTime_second]. reflexivity.
Qed.

Lemma datepart_dfields a b : dfields a = dfields b -> DateTime_datepart a = DateTime_datepart b.
Proof.
  destruct a as [a1 a2 a3 a4 a5 a6], b as [b1 b2 b3 b4 b5 b6]; unfold dfields, DateTime_datepart;
    cbn [DateTime_year DateTime_month DateTime_day]; intros [= -> -> ->]; reflexivity.
Qed.

Lemma timepart_tfields a b : tfields a = tfields b -> DateTime_timepart a = DateTime_timepart b.
Proof.
  destruct a as [a1 a2 a3 a4 a5 a6], b as [b1 b2 b3 b4 b5 b6]; unfold tfields, DateTime_timepart;
    cbn [DateTime_hour DateTime_minute DateTime_second]; intros [= -> -> ->]; reflexivity.
Qed.

(* ---- the two complete 2^16 sweeps *)
Definition P_date (d : N) : bool :=
  match DateTime_from_msdos d 0 with
  | Some dt => match DateTime_datepart dt with Some d' => (d' =? d) && (1980 <=? DateTime_year dt) | None => false end
  | None => false
  end.
Definition P_time (t : N) : bool :=
  match DateTime_from_msdos 0 t with
  | Some dt => DateTime_timepart dt =? t
  | None => false
  end.

Lemma sweep_date : forallb P_date (N_range 65536) = true.
Proof. vm_compute. reflexivity. Qed.
Lemma sweep_time : forallb P_time (N_range 65536) = true.
Proof. vm_compute. reflexivity. Qed.

Theorem pack_unpack d t : d < 65536 -> t < 65536 ->
  exists dt, DateTime_from_msdos d t = Some dt /\ DateTime_datepart dt = Some d /\
             DateTime_timepart dt = t /\ 1980 <= DateTime_year dt.
Proof.
  intros Hd Ht.
  pose proof (sweep _ _ sweep_date d Hd) as Pd. pose proof (sweep _ _ sweep_time t Ht) as Pt.
  unfold P_date in Pd. unfold P_time in Pt.
  destruct (DateTime_from_msdos d 0) as [a|] eqn:Ea; [|discriminate].
  destruct (DateTime_datepart a) as [d'|] eqn:Eda; [|discriminate].
  destruct (DateTime_from_msdos 0 t) as [b|] eqn:Eb; [|discriminate].
  pose proof (from_msdos_dfields d t) as Hs. rewrite Ea in Hs. cbn [option_map] in Hs.
  destruct (DateTime_from_msdos d t) as [c|] eqn:Ec; [|discriminate].
  cbn [option_map] in Hs. apply some_inj in Hs.
  exists c. split; [reflexivity|]. split; [|split].
  - rewrite (datepart_dfields c a Hs), Eda. f_equal. lia.
  - rewrite (timepart_tfields c b (from_msdos_tfields d t c b Ec Eb)). lia.
  - assert (DateTime_year c = DateTime_year a) as -> by (unfold dfields in Hs; congruence). lia.
Qed.

Corollary unpack_pack d t dt : d < 65536 -> t < 65536 -> DateTime_from_msdos d t = Some dt ->
  exists d', DateTime_datepart dt = Some d' /\ DateTime_from_msdos d' (DateTime_timepart dt) = Some dt.
Proof.
  intros Hd Ht E. destruct (pack_unpack d t Hd Ht) as (c & Ec & Hdp & Htp & _).
  rewrite E in Ec. injection Ec as <-. exists d. split; [assumption|]. now rewrite Htp.
Qed.

(* ---- checked constructor: accepts exactly the documented ranges *)
Theorem ctor_exact y mo d h mi s dt :
  DateTime_from_date_and_time y mo d h mi s = Some dt <->
  (1980 <= y <= 2107 /\ 1 <= mo <= 12 /\ 1 <= d <= 31 /\ h <= 23 /\ mi <= 59 /\ s <= 60) /\
  dt = {| DateTime_year := y; DateTime_month := mo; DateTime_day := d;
          DateTime_hour := h; DateTime_minute := mi; DateTime_second := s |}.
Proof.
  unfold DateTime_from_date_and_time.
  match goal with |- context [if ?c then _ else _] => destruct c eqn:E end; split.
  - intros [= <-]. split; [lia|reflexivity].
  - intros [_ ->]. reflexivity.
  - discriminate.
  - intros [H _]. lia.
Qed.

(* ---- re-packing: every DateTime whose fields fit the DOS bit fields survives, up to 2 s *)
Definition mk (y mo d h mi s : N) : DateTime :=
  {| DateTime_year := y; DateTime_month := mo; DateTime_day := d;
     DateTime_hour := h; DateTime_minute := mi; DateTime_second := s |}.

Definition Q_date (y' mo d : N) : bool :=
  let dt0 := mk (1980 + y') mo d 0 0 0 in
  match DateTime_datepart dt0 with
  | Some w => (w <? 65536) &&
              match DateTime_from_msdos w 0 with Some r => eq3 (dfields r) (dfields dt0) | None => false end
  | None => false
  end.
Definition Q_time (h mi s : N) : bool :=
  let dt0 := mk 1980 1 1 h mi s in
  (DateTime_timepart dt0 <? 65536) &&
  match DateTime_from_msdos 0 (DateTime_timepart dt0) with
  | Some r => eq3 (tfields r) (h, mi, 2 * (s / 2))
  | None => false
  end.

Lemma sweep_qdate : sweep3 Q_date 128 16 32 = true.
Proof. vm_compute. reflexivity. Qed.
Lemma sweep_qtime : sweep3 Q_time 32 64 64 = true.
Proof. vm_compute. reflexivity. Qed.

Definition fits_dos (dt : DateTime) : Prop :=
  1980 <= DateTime_year dt < 2108 /\ DateTime_month dt < 16 /\ DateTime_day dt < 32 /\
  DateTime_hour dt < 32 /\ DateTime_minute dt < 64 /\ DateTime_second dt < 64.

Theorem repack dt : fits_dos dt ->
  exists w, DateTime_datepart dt = Some w /\ w < 65536 /\ DateTime_timepart dt < 65536 /\
    DateTime_from_msdos w (DateTime_timepart dt) =
      Some (mk (DateTime_year dt) (DateTime_month dt) (DateTime_day dt)
               (DateTime_hour dt) (DateTime_minute dt) (2 * (DateTime_second dt / 2))).
Proof.
  destruct dt as [y mo d h mi s]. unfold fits_dos; cbn [DateTime_year DateTime_month DateTime_day
    DateTime_hour DateTime_minute DateTime_second]. intros (Hy & Hmo & Hd & Hh & Hmi & Hs).
  pose proof (sweep3_ok _ _ _ _ sweep_qdate (y - 1980) mo d ltac:(lia) Hmo Hd) as Qd.
  pose proof (sweep3_ok _ _ _ _ sweep_qtime h mi s Hh Hmi Hs) as Qt.
  unfold Q_date in Qd. unfold Q_time in Qt. cbv zeta in Qd, Qt.
  replace (1980 + (y - 1980)) with y in Qd by lia.
  fold (mk y mo d h mi s).
  rewrite (datepart_dfields (mk y mo d h mi s) (mk y mo d 0 0 0) eq_refl).
  destruct (DateTime_datepart (mk y mo d 0 0 0)) as [w|] eqn:Ew; [|discriminate].
  apply andb_true_iff in Qd as [Hw Qd]. apply andb_true_iff in Qt as [Htw Qt].
  rewrite (timepart_tfields (mk y mo d h mi s) (mk 1980 1 1 h mi s) eq_refl).
  set (tw := DateTime_timepart (mk 1980 1 1 h mi s)) in *.
  destruct (DateTime_from_msdos w 0) as [a|] eqn:Ea; [|discriminate].
  destruct (DateTime_from_msdos 0 tw) as [b|] eqn:Eb; [|discriminate].
  apply eq3_eq in Qd. apply eq3_eq in Qt.
  exists w. split; [reflexivity|]. split; [lia|]. split; [lia|].
  pose proof (from_msdos_dfields w tw) as Hs'. rewrite Ea in Hs'. cbn [option_map] in Hs'.
  destruct (DateTime_from_msdos w tw) as [c|] eqn:Ec; [|discriminate].
  cbn [option_map] in Hs'. apply some_inj in Hs'.
  f_equal. apply dt_eta.
  - rewrite Hs', Qd. reflexivity.
  - rewrite (from_msdos_tfields w tw c b Ec Eb), Qt. reflexivity.
Qed.

(* accepted constructor arguments fit the DOS fields *)
Lemma accepted_fits y mo d h mi s dt :
  DateTime_from_date_and_time y mo d h mi s = Some dt -> fits_dos dt.
Proof.
  intro H. apply ctor_exact in H as [R ->]. unfold fits_dos; cbn. lia.
Qed.

(* ---- no panic: datepart's subtraction cannot underflow on any constructible value *)
Theorem datepart_no_panic dt : 1980 <= DateTime_year dt -> DateTime_datepart dt <> None.
Proof.
  intro H. unfold DateTime_datepart. cbv zeta.
  repeat match goal with
         | |- context [obind (sub_chk ?a ?b) _] =>
             unfold sub_chk; destruct (b <=? a) eqn:E; [cbn [obind]|lia]
         end.
  discriminate.
Qed.

(* ---- calendar conversions (hand model, Model/Dos.v) *)
Definition R_cal (y' m d : N) : bool :=
  let y := 1980 + y' in
  if valid_date y m d then
    eq3 (civil_from_days (days_from_civil y m d)) (y, m, d)
  else true.
Lemma sweep_cal : sweep3 R_cal 128 13 32 = true.
Proof. vm_compute. reflexivity. Qed.

Theorem to_time_try_from dt ts : 1980 <= DateTime_year dt <= 2107 ->
  to_time dt = Some ts -> try_from_unix ts = Some dt.
Proof.
  destruct dt as [y mo d h mi s]. cbn [DateTime_year]. intros Hy.
  unfold to_time; cbn [DateTime_year DateTime_month DateTime_day DateTime_hour DateTime_minute DateTime_second].
  destruct (valid_date y mo d) eqn:V; [|discriminate].
  destruct ((h <=? 23) && (mi <=? 59) && (s <=? 59)) eqn:T;
    [|rewrite <- !andb_assoc; cbn [andb]; rewrite !andb_assoc, T; discriminate].
  rewrite <- !andb_assoc; cbn [andb]; rewrite !andb_assoc, T. intros [= <-].
  assert (Hv : mo < 13 /\ d < 32).
  { unfold valid_date, days_in_month in V.
    destruct (mo =? 2); destruct (is_leap y); destruct ((mo =? 4) || (mo =? 6) || (mo =? 9) || (mo =? 11)); lia. }
  pose proof (sweep3_ok _ _ _ _ sweep_cal (y - 1980) mo d ltac:(lia) (proj1 Hv) (proj2 Hv)) as C.
  unfold R_cal in C. cbv zeta in C. replace (1980 + (y - 1980)) with y in C by lia.
  rewrite V in C. apply eq3_eq in C.
  unfold try_from_unix.
  set (D := days_from_civil y mo d) in *.
  assert (E1 : (D * 86400 + h * 3600 + mi * 60 + s) / 86400 = D) by lia.
  assert (E2 : (D * 86400 + h * 3600 + mi * 60 + s) mod 86400 = h * 3600 + mi * 60 + s) by lia.
  rewrite E1, E2, C.
  destruct ((1980 <=? y) && (y <=? 2107)) eqn:R; [|lia].
  f_equal. f_equal; lia.
Qed.

(* non-vacuity: the hypotheses are met by concrete non-trivial values *)
Example ex_pack : exists dt, DateTime_from_msdos 0x4D71 0x54CF = Some dt /\ DateTime_year dt = 2018.
Proof. eexists; split; vm_compute; reflexivity. Qed.
Example ex_to_time : to_time (mk 2018 11 17 10 38 30) = Some 1542451110.
Proof. vm_compute. reflexivity. Qed.
