(* Proofs/ExtractTree.v — C07, the positive half: extracting entries with plain names reproduces the tree.
   A plain name is  n1/n2/.../nk  (k >= 1) whose components are non-empty, are not "." or "..", and contain no '/'
   and no NUL; a directory entry carries a trailing '/'.  Over the file tree of Spec/Fs.v. *)
From Coq Require Import ZArith Lia List Bool.
From ZipV Require Import Base.Bytes Base.Outcome Spec.PathSpec Model.Path Spec.Fs Model.Extract Proofs.PathProofs Proofs.ExtractProofs.
Import ListNotations.
Open Scope N_scope.

(* ---------- the tree as a finite map *)
Lemma loc_eqb_eq a : forall b, loc_eqb a b = true <-> a = b.
Proof.
  induction a as [|x a IH]; intros [|y b]; cbn [loc_eqb]; split; intro H; try reflexivity; try discriminate.
  - apply andb_true_iff in H as [H1 H2]. apply bytes_eqb_eq in H1. apply IH in H2. now subst.
  - injection H as -> ->. apply andb_true_iff. split; [now apply bytes_eqb_eq|now apply IH].
Qed.
Lemma loc_eqb_neq a b : a <> b -> loc_eqb a b = false.
Proof. intro H. destruct (loc_eqb a b) eqn:E; [|reflexivity]. apply loc_eqb_eq in E. contradiction. Qed.

Lemma lookup_update_same t l n : lookup (update t l n) l = Some n.
Proof.
  induction t as [|[k m] r IH]; cbn [update lookup].
  - now rewrite loc_eqb_refl.
  - destruct (loc_eqb k l) eqn:E; cbn [lookup]; rewrite E; [reflexivity|exact IH].
Qed.
Lemma lookup_update_other t l n l' : l <> l' -> lookup (update t l n) l' = lookup t l'.
Proof.
  intro H. induction t as [|[k m] r IH]; cbn [update lookup].
  - now rewrite (loc_eqb_neq _ _ H).
  - destruct (loc_eqb k l) eqn:E; cbn [lookup].
    + apply loc_eqb_eq in E. subst k. now rewrite (loc_eqb_neq _ _ H).
    + destruct (loc_eqb k l'); [reflexivity|exact IH].
Qed.

Lemma app_neq_self {A} (l x : list A) : x <> [] -> l ++ x <> l.
Proof. intros Hx H. apply Hx. apply (app_inv_head l). now rewrite app_nil_r. Qed.

(* ---------- create_dir_all along a list of ordinary names *)
Definition is_dir (t : fs) (l : loc) : Prop := exists m, lookup t l = Some (NDir m).
Definition free_or_dir (t : fs) (l : loc) : Prop := lookup t l = None \/ is_dir t l.

Lemma firstn_S_app (cur : loc) n r k : (cur ++ [n]) ++ firstn k r = cur ++ firstn (S k) (n :: r).
Proof. cbn [firstn]. now rewrite <- app_assoc. Qed.

Lemma mkdir_all_spec umask : forall ns t cur lg,
  (forall k, (1 <= k <= length ns)%nat -> free_or_dir t (cur ++ firstn k ns)) ->
  exists t' lg',
    mkdir_all umask t cur (map Normal ns) lg = ((t', lg'), Some (inl (cur ++ ns))) /\
    (forall k, (1 <= k <= length ns)%nat -> is_dir t' (cur ++ firstn k ns)) /\
    (forall l, (forall k, (1 <= k <= length ns)%nat -> l <> cur ++ firstn k ns) -> lookup t' l = lookup t l) /\
    (forall l m, lookup t l = Some (NDir m) -> lookup t' l = Some (NDir m)).
Proof.
  induction ns as [|n r IH]; intros t cur lg Hfree.
  - exists t, lg. cbn [map mkdir_all]. rewrite app_nil_r. split; [reflexivity|]. split; [cbn; intros; lia|]. split; auto.
  - cbn [map mkdir_all].
    assert (Hn : free_or_dir t (cur ++ [n])) by (apply (Hfree 1%nat); cbn [length]; lia).
    assert (Hrest : forall t1, (forall l, l <> cur ++ [n] -> lookup t1 l = lookup t l) -> (forall m, lookup t (cur ++ [n]) = Some (NDir m) -> lookup t1 (cur ++ [n]) = Some (NDir m)) ->
              forall k, (1 <= k <= length r)%nat -> free_or_dir t1 ((cur ++ [n]) ++ firstn k r)).
    { intros t1 Ht1 _ k Hk. rewrite firstn_S_app.
      assert (Hne : cur ++ firstn (S k) (n :: r) <> cur ++ [n]).
      { rewrite <- firstn_S_app. apply app_neq_self. destruct r; cbn [length] in Hk; [lia|]. destruct k; [lia|]. discriminate. }
      unfold free_or_dir, is_dir. rewrite (Ht1 _ Hne). apply Hfree. cbn [length]. lia. }
    destruct Hn as [Hnone|[m Hdir]].
    + rewrite Hnone.
      set (t1 := update t (cur ++ [n]) (NDir (dir_mode umask))).
      destruct (IH t1 (cur ++ [n]) (lg ++ [cur ++ [n]])) as (t' & lg' & E & Hd & Hu & Hk).
      { apply Hrest; [intros l Hl; apply lookup_update_other; congruence|]. intros m Hm. congruence. }
      exists t', lg'. rewrite E. rewrite <- app_assoc. split; [reflexivity|]. split; [|split].
      * intros k Hk0. destruct k as [|k]; [lia|]. destruct k as [|k].
        -- cbn [firstn]. exists (dir_mode umask). apply Hk. unfold t1. apply lookup_update_same.
        -- rewrite <- firstn_S_app. apply Hd. cbn [length] in Hk0. lia.
      * intros l Hl. rewrite Hu.
        -- unfold t1. apply lookup_update_other. intro X. apply (Hl 1%nat); [cbn [length]; lia|]. cbn [firstn]. now symmetry.
        -- intros k Hk0. rewrite firstn_S_app. apply Hl. cbn [length]. lia.
      * intros l m Hl. apply Hk. unfold t1. rewrite lookup_update_other; [exact Hl|]. intro X. subst l. congruence.
    + rewrite Hdir.
      destruct (IH t (cur ++ [n]) lg) as (t' & lg' & E & Hd & Hu & Hk).
      { apply Hrest; auto. }
      exists t', lg'. rewrite E. rewrite <- app_assoc. split; [reflexivity|]. split; [|split].
      * intros k Hk0. destruct k as [|k]; [lia|]. destruct k as [|k].
        -- cbn [firstn]. exists m. now apply Hk.
        -- rewrite <- firstn_S_app. apply Hd. cbn [length] in Hk0. lia.
      * intros l Hl. apply Hu. intros k Hk0. rewrite firstn_S_app. apply Hl. cbn [length]. lia.
      * exact Hk.
Qed.

(* ---------- names *)
Definition good (n : bytes) : Prop := goodb n = true /\ has_nul n = false.

Lemma good_flags n : goodb n = true -> is_empty n = false /\ is_dot n = false /\ is_dotdot n = false /\ existsb (Byte.eqb slash) n = false.
Proof.
  unfold goodb. intro H. apply andb_true_iff in H as [H H4]. apply andb_true_iff in H as [H H3]. apply andb_true_iff in H as [H1 H2].
  apply negb_true_iff in H1, H2, H3, H4. auto.
Qed.

Lemma resolve_dir_spec : forall ns t cur, Forall (fun n => goodb n = true) ns ->
  (forall k, (1 <= k <= length ns)%nat -> is_dir t (cur ++ firstn k ns)) -> resolve_dir t cur ns = inl (cur ++ ns).
Proof.
  induction ns as [|n r IH]; intros t cur Hg Hd; cbn [resolve_dir]; [now rewrite app_nil_r|].
  inversion Hg as [|? ? Hn Hr]; subst. destruct (good_flags n Hn) as (-> & -> & -> & _). cbn [orb].
  destruct (Hd 1%nat) as [m Hm]; [cbn [length]; lia|]. cbn [firstn] in Hm. rewrite Hm.
  rewrite (IH t (cur ++ [n]) Hr); [now rewrite <- app_assoc|].
  intros k Hk. rewrite firstn_S_app. apply Hd. cbn [length]. lia.
Qed.

Lemma firstn_app_le {A} (a b : list A) k : (k <= length a)%nat -> firstn k (a ++ b) = firstn k a.
Proof. intro H. rewrite firstn_app. replace (k - length a)%nat with 0%nat by lia. cbn [firstn]. apply app_nil_r. Qed.

Lemma create_file_spec umask t cur pre last content lg :
  Forall (fun n => goodb n = true) (pre ++ [last]) ->
  (forall k, (1 <= k <= length pre)%nat -> is_dir t (cur ++ firstn k pre)) ->
  ~ is_dir t (cur ++ pre ++ [last]) ->
  exists m, create_file umask t cur (pre ++ [last]) content lg =
            ((update t (cur ++ pre ++ [last]) (NFile content m), lg ++ [cur ++ pre ++ [last]]), None) /\
            (lookup t (cur ++ pre ++ [last]) = None -> m = file_mode umask) /\
            (forall c m0, lookup t (cur ++ pre ++ [last]) = Some (NFile c m0) -> m = m0).
Proof.
  intros Hg Hd Hnd. unfold create_file. rewrite rev_app_distr. cbn [rev app]. rewrite rev_involutive.
  apply Forall_app in Hg as [Hgp Hgl]. inversion Hgl as [|? ? Hl _]; subst.
  rewrite (resolve_dir_spec pre t cur Hgp Hd). destruct (good_flags last Hl) as (-> & -> & -> & _). cbn [orb].
  rewrite <- app_assoc.
  destruct (lookup t (cur ++ pre ++ [last])) as [[m|c m]|] eqn:E.
  - exfalso. apply Hnd. now exists m.
  - exists m. split; [reflexivity|]. split; [discriminate|]. intros c0 m0 X. now injection X.
  - exists (file_mode umask). split; [reflexivity|]. split; [reflexivity|discriminate].
Qed.

Lemma chmod_file_spec t cur pre last mode lg c m0 :
  Forall (fun n => goodb n = true) (pre ++ [last]) ->
  (forall k, (1 <= k <= length pre)%nat -> is_dir t (cur ++ firstn k pre)) ->
  lookup t (cur ++ pre ++ [last]) = Some (NFile c m0) ->
  chmod t cur (pre ++ [last]) mode lg =
    ((update t (cur ++ pre ++ [last]) (NFile c (N.land mode 4095)), lg ++ [cur ++ pre ++ [last]]), None).
Proof.
  intros Hg Hd Hf. unfold chmod. rewrite rev_app_distr. cbn [rev app]. rewrite rev_involutive.
  apply Forall_app in Hg as [Hgp Hgl]. inversion Hgl as [|? ? Hl _]; subst.
  rewrite (resolve_dir_spec pre t cur Hgp Hd). destruct (good_flags last Hl) as (E1 & -> & -> & _). rewrite E1. cbn [orb].
  rewrite <- app_assoc. rewrite Hf. try rewrite E1. reflexivity.
Qed.

Lemma chmod_dir_spec t cur ns mode lg m0 :
  Forall (fun n => goodb n = true) ns ->
  (forall k, (1 <= k <= length ns)%nat -> is_dir t (cur ++ firstn k ns)) ->
  lookup t (cur ++ ns) = Some (NDir m0) ->
  chmod t cur (ns ++ [[]]) mode lg = ((update t (cur ++ ns) (NDir (N.land mode 4095)), lg ++ [cur ++ ns]), None).
Proof.
  intros Hg Hd Hf. unfold chmod. rewrite rev_app_distr. cbn [rev app]. rewrite rev_involutive.
  rewrite (resolve_dir_spec ns t cur Hg Hd). cbn [is_empty orb]. rewrite Hf. reflexivity.
Qed.

(* ---------- plain names *)
Definition plain (ns : list bytes) : Prop := ns <> [] /\ Forall good ns.

Lemma plain_goodb ns : Forall good ns -> Forall (fun n => goodb n = true) ns.
Proof. intro H. eapply Forall_impl; [|exact H]. now intros n [A _]. Qed.

Lemma has_nul_app a b : has_nul (a ++ b) = has_nul a || has_nul b.
Proof. unfold has_nul. apply existsb_app. Qed.

Lemma has_nul_join : forall ns, Forall good ns -> has_nul (join slash ns) = false.
Proof.
  induction ns as [|n r IH]; intro H; [reflexivity|]. inversion H as [|? ? [_ Hn] Hr]; subst.
  destruct r as [|n2 r']; [exact Hn|].
  change (join slash (n :: n2 :: r')) with (n ++ slash :: join slash (n2 :: r')).
  rewrite has_nul_app, Hn. cbn [orb]. unfold has_nul. cbn [existsb]. fold (has_nul (join slash (n2 :: r'))). rewrite (IH Hr). reflexivity.
Qed.

Lemma depth_walk_normals : forall ns d, depth_walk d (map Normal ns) = true.
Proof. induction ns as [|n r IH]; intro d; cbn [map depth_walk]; auto. Qed.

Lemma enclosed_plain ns : plain ns -> enclosed_name (join slash ns) = Some (join slash ns).
Proof.
  intros [_ Hg]. unfold enclosed_name. rewrite (has_nul_join ns Hg).
  rewrite (components_join ns (plain_goodb ns Hg)), depth_walk_normals. reflexivity.
Qed.

Lemma split_on_snoc sep : forall a, split_on sep (a ++ [sep]) = split_on sep a ++ [[]].
Proof.
  induction a as [|b r IH]; cbn [app split_on].
  - rewrite beqb_refl. reflexivity.
  - destruct (Byte.eqb b sep); [now rewrite IH|]. rewrite IH.
    destruct (split_on sep r) as [|p ps] eqn:E; [exfalso; exact (split_on_nonempty sep r E)|]. reflexivity.
Qed.

Lemma join_first ns : plain ns -> exists b tl, join slash ns = b :: tl /\ Byte.eqb b slash = false.
Proof.
  intros [Hne Hg]. destruct ns as [|n r]; [contradiction|]. inversion Hg as [|? ? [Hn _] _]; subst.
  destruct (good_flags n Hn) as (He & _ & _ & Hs). destruct n as [|b m]; [discriminate|].
  exists b. cbn [existsb] in Hs. apply orb_false_iff in Hs as [Hb _].
  assert (Hbs : Byte.eqb b slash = false).
  { destruct (Byte.eqb b slash) eqn:E; [|reflexivity]. apply Byte.byte_dec_bl in E. subst. rewrite beqb_refl in Hb. discriminate. }
  destruct r; cbn [join app]; eauto.
Qed.

Lemma no_slash_last hd b : existsb (Byte.eqb slash) (hd ++ [b]) = false -> Byte.eqb b slash = false.
Proof.
  intro Hs. rewrite existsb_app in Hs. apply orb_false_iff in Hs as [_ Hs]. cbn [existsb] in Hs. rewrite orb_false_r in Hs.
  destruct (Byte.eqb b slash) eqn:E; [|reflexivity]. apply Byte.byte_dec_bl in E. subst b. rewrite beqb_refl in Hs. discriminate Hs.
Qed.

Lemma join_last_byte : forall ns, plain ns -> exists hd b, join slash ns = hd ++ [b] /\ Byte.eqb b slash = false.
Proof.
  induction ns as [|n r IH]; intros [Hne Hg]; [contradiction|]. inversion Hg as [|? ? [Hn _] Hr]; subst.
  destruct r as [|n2 r'].
  - cbn [join]. destruct (good_flags n Hn) as (He & _ & _ & Hs).
    assert (Hnn : n <> []) by (intro X; subst n; cbn in He; discriminate He).
    destruct (exists_last Hnn) as (hd & b & ->).
    exists hd, b. split; [reflexivity|exact (no_slash_last hd b Hs)].
  - assert (Hp : plain (n2 :: r')) by (split; [discriminate|exact Hr]).
    destruct (IH Hp) as (hd & b & E & Hb).
    change (join slash (n :: n2 :: r')) with (n ++ slash :: join slash (n2 :: r')). rewrite E.
    exists (n ++ slash :: hd), b. split; [now rewrite <- app_assoc|exact Hb].
Qed.

Lemma ends_with_slash_plain ns : plain ns -> ends_with_slash (join slash ns) = false.
Proof. intro H. destruct (join_last_byte ns H) as (hd & b & -> & Hb). unfold ends_with_slash. rewrite rev_app_distr. exact Hb. Qed.
Lemma ends_with_slash_dir a : ends_with_slash (a ++ [slash]) = true.
Proof. unfold ends_with_slash. rewrite rev_app_distr. reflexivity. Qed.

Lemma no_curdir_normals ns : no_curdir (map Normal ns) = map Normal ns.
Proof. induction ns as [|n r IH]; [reflexivity|]. unfold no_curdir in *. cbn [map filter]. now rewrite IH. Qed.
Lemma removelast_map {A B} (f : A -> B) : forall l, removelast (map f l) = map f (removelast l).
Proof. induction l as [|x l IH]; [reflexivity|]. cbn [map removelast]. destruct l; [reflexivity|]. cbn [map] in *. now rewrite IH. Qed.

(* a directory name: the plain name with a trailing separator *)
Lemma split_dirname ns : plain ns -> split_on slash (join slash ns ++ [slash]) = ns ++ [[]].
Proof. intros [Hne Hg]. rewrite split_on_snoc, (split_join_good ns Hne (plain_goodb ns Hg)). reflexivity. Qed.

Lemma components_dirname ns : plain ns -> components (join slash ns ++ [slash]) = map Normal ns.
Proof.
  intro Hp. pose proof (split_dirname ns Hp) as Hs. destruct (join_first ns Hp) as (b & tl & Ej & Hb). destruct Hp as [Hne Hg].
  unfold components. rewrite Hs. rewrite Ej. cbn [app]. rewrite Hb.
  destruct ns as [|n r]; [contradiction|]. cbn [app]. inversion Hg as [|? ? [Hn _] _]; subst.
  destruct (good_flags n Hn) as (_ & -> & _ & _).
  change (n :: r ++ [[]]) with ((n :: r) ++ [[]]). rewrite body_app, (body_good (n :: r) (plain_goodb _ Hg)). cbn [body piece_comp is_empty orb]. apply app_nil_r.
Qed.

Lemma enclosed_dirname ns : plain ns -> enclosed_name (join slash ns ++ [slash]) = Some (join slash ns ++ [slash]).
Proof.
  intro Hp. unfold enclosed_name. rewrite has_nul_app, (has_nul_join ns (proj2 Hp)). cbn.
  rewrite (components_dirname ns Hp), depth_walk_normals. reflexivity.
Qed.

Lemma trailing_dot_dirname ns : plain ns -> trailing_dot (ns ++ [[]]) = false.
Proof.
  intros [Hne Hg]. unfold trailing_dot. rewrite rev_app_distr. cbn [rev app trailing_dot_rev is_empty].
  destruct (exists_last Hne) as (pre & l & ->). rewrite rev_app_distr. cbn [rev app trailing_dot_rev].
  apply Forall_app in Hg as [_ Hl]. inversion Hl as [|? ? [Hgl _] _]; subst. destruct (good_flags l Hgl) as (-> & -> & _). reflexivity.
Qed.

(* ---------- one entry *)
Lemma prefix_neq_longer (root pre : loc) last k : root ++ pre ++ [last] <> root ++ firstn k pre.
Proof.
  intro H. apply app_inv_head in H. apply (f_equal (@length _)) in H. rewrite app_length, firstn_length in H. cbn [length] in H. lia.
Qed.

Definition file_entry (ns : list bytes) (c : bytes) (mo : option N) : xentry :=
  {| x_name := join slash ns; x_open := None; x_data := c; x_read_err := None; x_mode := mo |}.
Definition dir_entry (ns : list bytes) (mo : option N) : xentry :=
  {| x_name := join slash ns ++ [slash]; x_open := None; x_data := []; x_read_err := None; x_mode := mo |}.

Lemma extract_file_entry umask root t lg pre last c mo :
  plain (pre ++ [last]) ->
  (forall k, (1 <= k <= length pre)%nat -> free_or_dir t (root ++ firstn k pre)) ->
  ~ is_dir t (root ++ pre ++ [last]) ->
  exists t' lg' m, extract_entry umask root (t, lg) (file_entry (pre ++ [last]) c mo) = ((t', lg'), XOk) /\
    lookup t' (root ++ pre ++ [last]) = Some (NFile c m) /\ (forall md, mo = Some md -> m = N.land md 4095) /\
    (forall k, (1 <= k <= length pre)%nat -> is_dir t' (root ++ firstn k pre)) /\
    (forall l, (forall k, (1 <= k <= length pre)%nat -> l <> root ++ firstn k pre) -> l <> root ++ pre ++ [last] -> lookup t' l = lookup t l) /\
    (forall l m0, lookup t l = Some (NDir m0) -> lookup t' l = Some (NDir m0)).
Proof.
  intros Hp Hfree Hnd. pose proof Hp as [Hne Hg]. pose proof (plain_goodb _ Hg) as Hgb.
  unfold extract_entry, file_entry. cbn [x_open x_name x_mode x_data x_read_err].
  rewrite (enclosed_plain _ Hp), (split_join_good _ Hne Hgb), (components_join _ Hgb), (ends_with_slash_plain _ Hp).
  rewrite no_curdir_normals, removelast_map, removelast_last.
  destruct (mkdir_all_spec umask pre t root lg Hfree) as (t1 & lg1 & E1 & Hd1 & Hu1 & Hk1). rewrite E1. cbn [fst snd].
  assert (Hnd1 : ~ is_dir t1 (root ++ pre ++ [last])).
  { unfold is_dir. rewrite Hu1; [exact Hnd|]. intros k _. apply prefix_neq_longer. }
  destruct (create_file_spec umask t1 root pre last c lg1 Hgb Hd1 Hnd1) as (m & E2 & _ & _). rewrite E2.
  set (tgt := root ++ pre ++ [last]) in *. set (t2 := update t1 tgt (NFile c m)) in *.
  assert (Hd2 : forall k, (1 <= k <= length pre)%nat -> is_dir t2 (root ++ firstn k pre)).
  { intros k Hk. destruct (Hd1 k Hk) as [md Hmd]. exists md. unfold t2. rewrite lookup_update_other; [exact Hmd|]. apply prefix_neq_longer. }
  assert (Hother2 : forall l, (forall k, (1 <= k <= length pre)%nat -> l <> root ++ firstn k pre) -> l <> tgt -> lookup t2 l = lookup t l).
  { intros l Hl1 Hl2. unfold t2. rewrite lookup_update_other by congruence. now apply Hu1. }
  assert (Hkeep2 : forall l m0, lookup t l = Some (NDir m0) -> lookup t2 l = Some (NDir m0)).
  { intros l m0 Hl. unfold t2. rewrite lookup_update_other; [now apply Hk1|]. intro X. subst l. apply Hnd. now exists m0. }
  destruct mo as [md|].
  - rewrite (chmod_file_spec t2 root pre last md _ c m Hgb Hd2) by (unfold t2; apply lookup_update_same).
    eexists. eexists. exists (N.land md 4095). split; [reflexivity|]. fold tgt. split; [apply lookup_update_same|].
    split; [intros ? X; now injection X as <-|]. split; [|split].
    + intros k Hk. destruct (Hd2 k Hk) as [mm Hmm]. exists mm. rewrite lookup_update_other; [exact Hmm|]. apply prefix_neq_longer.
    + intros l Hl1 Hl2. rewrite lookup_update_other by congruence. now apply Hother2.
    + intros l m0 Hl. rewrite lookup_update_other; [now apply Hkeep2|]. intro X. subst l. apply Hnd. now exists m0.
  - exists t2, (lg1 ++ [tgt]), m. split; [reflexivity|]. split; [unfold t2; apply lookup_update_same|].
    split; [discriminate|]. auto.
Qed.

Lemma extract_dir_entry umask root t lg ns mo :
  plain ns ->
  (forall k, (1 <= k <= length ns)%nat -> free_or_dir t (root ++ firstn k ns)) ->
  exists t' lg' m, extract_entry umask root (t, lg) (dir_entry ns mo) = ((t', lg'), XOk) /\
    lookup t' (root ++ ns) = Some (NDir m) /\ (forall md, mo = Some md -> m = N.land md 4095) /\
    (forall k, (1 <= k <= length ns)%nat -> is_dir t' (root ++ firstn k ns)) /\
    (forall l, (forall k, (1 <= k <= length ns)%nat -> l <> root ++ firstn k ns) -> lookup t' l = lookup t l) /\
    (forall l, is_dir t l -> is_dir t' l).
Proof.
  intros Hp Hfree. pose proof Hp as [Hne Hg]. pose proof (plain_goodb _ Hg) as Hgb.
  unfold extract_entry, dir_entry. cbn [x_open x_name x_mode x_data x_read_err].
  rewrite (enclosed_dirname _ Hp), (split_dirname _ Hp), (components_dirname _ Hp), ends_with_slash_dir, (trailing_dot_dirname _ Hp).
  cbn [andb].
  destruct (mkdir_all_spec umask ns t root lg Hfree) as (t1 & lg1 & E1 & Hd1 & Hu1 & Hk1). rewrite E1. cbn [fst snd].
  assert (Hlast : is_dir t1 (root ++ ns)).
  { specialize (Hd1 (length ns)). rewrite firstn_all in Hd1. apply Hd1. destruct ns; [contradiction|cbn [length]; lia]. }
  destruct Hlast as [m1 Hm1].
  destruct mo as [md|].
  - rewrite (chmod_dir_spec t1 root ns md lg1 m1 Hgb Hd1 Hm1).
    eexists. eexists. exists (N.land md 4095). split; [reflexivity|]. split; [apply lookup_update_same|].
    split; [intros ? X; now injection X as <-|]. split; [|split].
    + intros k Hk. destruct (loc_eqb (root ++ firstn k ns) (root ++ ns)) eqn:E.
      * apply loc_eqb_eq in E. rewrite E. eexists. apply lookup_update_same.
      * destruct (Hd1 k Hk) as [mm Hmm]. exists mm. rewrite lookup_update_other; [exact Hmm|]. intro X. rewrite X, loc_eqb_refl in E. discriminate.
    + intros l Hl. rewrite lookup_update_other; [now apply Hu1|]. intro X. apply (Hl (length ns)); [destruct ns; [contradiction|cbn [length]; lia]|].
      now rewrite firstn_all.
    + intros l [m0 Hl]. destruct (loc_eqb (root ++ ns) l) eqn:E.
      * apply loc_eqb_eq in E. subst l. eexists. apply lookup_update_same.
      * exists m0. rewrite lookup_update_other; [now apply Hk1|]. intro X. rewrite X, loc_eqb_refl in E. discriminate.
  - exists t1, lg1, m1. split; [reflexivity|]. split; [exact Hm1|]. split; [discriminate|]. split; [exact Hd1|]. split; [exact Hu1|].
    intros l [m0 Hl]. exists m0. now apply Hk1.
Qed.

(* ---------- a whole archive of plain entries *)
Inductive item := IFile (ns : list bytes) (c : bytes) (mo : option N) | IDir (ns : list bytes) (mo : option N).
Definition path_of (i : item) : list bytes := match i with IFile ns _ _ | IDir ns _ => ns end.
Definition is_file (i : item) : Prop := match i with IFile _ _ _ => True | IDir _ _ => False end.
Definition entry_of (i : item) : xentry := match i with IFile ns c mo => file_entry ns c mo | IDir ns mo => dir_entry ns mo end.

Definition pfx (a b : list bytes) : Prop := exists k, a = firstn k b.
(* mutually consistent: a file's path is neither a directory of another entry nor another entry's path *)
Definition compat (a b : item) : Prop :=
  (is_file a -> ~ pfx (path_of a) (path_of b)) /\ (is_file b -> ~ pfx (path_of b) (path_of a)).

(* what the tree looks like after the items [done] have been extracted into an empty target *)
Record tree_ok (root : loc) (t : fs) (done : list item) : Prop := {
  tk_files : forall ns c mo, In (IFile ns c mo) done ->
               exists m, lookup t (root ++ ns) = Some (NFile c m) /\ (forall md, mo = Some md -> m = N.land md 4095);
  tk_dirs : forall i k, In i done -> (1 <= k <= length (path_of i))%nat -> (k < length (path_of i))%nat \/ ~ is_file i ->
               is_dir t (root ++ firstn k (path_of i));
  tk_only : forall rel, rel <> [] -> lookup t (root ++ rel) <> None ->
               exists i k, In i done /\ (1 <= k <= length (path_of i))%nat /\ rel = firstn k (path_of i) }.

Lemma firstn_firstn_pfx (a : list bytes) k k' : pfx (firstn k (firstn k' a)) a.
Proof. rewrite firstn_firstn. eexists. reflexivity. Qed.

Lemma firstn_nonempty {A} (l : list A) k : l <> [] -> (1 <= k)%nat -> firstn k l <> [].
Proof. intros Hl Hk. destruct l; [contradiction|]. destruct k; [lia|]. discriminate. Qed.

Lemma free_from_ok root t done x k :
  tree_ok root t done -> (forall d, In d done -> compat d x) -> path_of x <> [] -> (1 <= k)%nat ->
  free_or_dir t (root ++ firstn k (path_of x)).
Proof.
  intros Hok Hc Hpx Hk. destruct (lookup t (root ++ firstn k (path_of x))) as [nd|] eqn:E; [|now left]. right.
  destruct (tk_only _ _ _ Hok (firstn k (path_of x)) (firstn_nonempty _ _ Hpx Hk)) as (i & k' & Hi & Hk' & Erel); [congruence|].
  rewrite Erel. apply (tk_dirs _ _ _ Hok i k' Hi Hk').
  destruct i as [ns c mo|ns mo]; [|right; exact (fun f => f)].
  cbn [path_of] in *. destruct (Nat.lt_ge_cases k' (length ns)) as [Hlt|Hge]; [now left|]. exfalso.
  rewrite (firstn_all2 ns Hge) in Erel. destruct (Hc _ Hi) as [Hc1 _]. apply (Hc1 Logic.I). exists k. cbn [path_of]. now symmetry.
Qed.

Lemma not_dir_from_ok root t done ns c mo :
  tree_ok root t done -> (forall d, In d done -> compat d (IFile ns c mo)) -> ns <> [] -> ~ is_dir t (root ++ ns).
Proof.
  intros Hok Hc Hne [m Hm].
  destruct (tk_only _ _ _ Hok ns Hne) as (i & k' & Hi & Hk' & Erel); [congruence|].
  destruct (Hc _ Hi) as [_ Hc2]. apply (Hc2 Logic.I). exists k'. exact Erel.
Qed.

Lemma app_root_neq (root a b : loc) : a <> b -> root ++ a <> root ++ b.
Proof. intros H X. apply H. now apply app_inv_head in X. Qed.

Lemma firstn_len_self {A} (l : list A) k : (k <= length l)%nat -> length (firstn k l) = k.
Proof. intro H. rewrite firstn_length. lia. Qed.

(* one more entry *)
Lemma extract_step umask root t lg done x :
  tree_ok root t done -> (forall d, In d done -> compat d x) -> plain (path_of x) ->
  exists t' lg', extract_entry umask root (t, lg) (entry_of x) = ((t', lg'), XOk) /\ tree_ok root t' (done ++ [x]).
Proof.
  intros Hok Hc Hp. pose proof Hp as [Hne Hg].
  destruct x as [ns c mo|ns mo]; cbn [path_of entry_of] in *.
  - (* a file *)
    destruct (exists_last Hne) as (pre & last & ->).
    assert (Hfree : forall k, (1 <= k <= length pre)%nat -> free_or_dir t (root ++ firstn k pre)).
    { intros k Hk. rewrite <- (firstn_app_le pre [last] k) by lia. apply (free_from_ok root t done (IFile (pre ++ [last]) c mo)); auto; lia. }
    pose proof (not_dir_from_ok root t done _ c mo Hok Hc Hne) as Hnd.
    destruct (extract_file_entry umask root t lg pre last c mo Hp Hfree Hnd) as (t' & lg' & m & E & Hf & Hm & Hd & Hu & Hk).
    exists t', lg'. split; [exact E|]. constructor.
    + intros ns' c' mo' Hin. apply in_app_or in Hin as [Hin|[Hin|[]]].
      * destruct (tk_files _ _ _ Hok _ _ _ Hin) as (m' & Hl & Hmm). exists m'. split; [|exact Hmm].
        destruct (Hc _ Hin) as [Hc1 _]. cbn [path_of is_file] in Hc1. specialize (Hc1 Logic.I).
        rewrite Hu; [exact Hl| |].
        -- intros k Hk0. apply app_root_neq. intro X. apply Hc1. exists k. rewrite firstn_app_le by lia. exact X.
        -- apply app_root_neq. intro X. apply Hc1. exists (length (pre ++ [last])). now rewrite firstn_all.
      * injection Hin as <- <- <-. exists m. split; [exact Hf|exact Hm].
    + intros i k Hin Hk0 Hcase. apply in_app_or in Hin as [Hin|[Hin|[]]].
      * destruct (tk_dirs _ _ _ Hok i k Hin Hk0 Hcase) as [md Hmd]. exists md. now apply Hk.
      * subst i. cbn [path_of is_file] in *. destruct Hcase as [Hlt|Hnf]; [|exfalso; now apply Hnf].
        rewrite app_length in Hlt. cbn [length] in Hlt. rewrite firstn_app_le by lia. apply Hd. lia.
    + intros rel Hrel Hl.
      destruct (loc_eqb rel (firstn (length rel) (pre ++ [last]))) eqn:Eq.
      * apply loc_eqb_eq in Eq. destruct (Nat.le_gt_cases (length rel) (length (pre ++ [last]))) as [Hle|Hgt].
        -- exists (IFile (pre ++ [last]) c mo), (length rel). split; [apply in_or_app; right; now left|]. cbn [path_of]. split; [|exact Eq].
           split; [destruct rel; [contradiction|cbn [length]; lia]|exact Hle].
        -- exfalso. apply (f_equal (@length _)) in Eq. rewrite firstn_length in Eq. lia.
      * assert (Hold : lookup t' (root ++ rel) = lookup t (root ++ rel)).
        { apply Hu.
          - intros k Hk0. apply app_root_neq. intro X. subst rel. rewrite firstn_len_self in Eq by lia.
            rewrite firstn_app_le in Eq by lia. rewrite loc_eqb_refl in Eq. discriminate.
          - apply app_root_neq. intro X. subst rel. rewrite firstn_all, loc_eqb_refl in Eq. discriminate. }
        rewrite Hold in Hl. destruct (tk_only _ _ _ Hok rel Hrel Hl) as (i & k & Hi & Hk0 & Er).
        exists i, k. split; [apply in_or_app; now left|]. auto.
  - (* a directory *)
    assert (Hfree : forall k, (1 <= k <= length ns)%nat -> free_or_dir t (root ++ firstn k ns)).
    { intros k Hk. apply (free_from_ok root t done (IDir ns mo)); auto; lia. }
    destruct (extract_dir_entry umask root t lg ns mo Hp Hfree) as (t' & lg' & m & E & Hf & Hm & Hd & Hu & Hk).
    exists t', lg'. split; [exact E|]. constructor.
    + intros ns' c' mo' Hin. apply in_app_or in Hin as [Hin|[Hin|[]]]; [|discriminate Hin].
      destruct (tk_files _ _ _ Hok _ _ _ Hin) as (m' & Hl & Hmm). exists m'. split; [|exact Hmm].
      destruct (Hc _ Hin) as [Hc1 _]. cbn [path_of is_file] in Hc1. specialize (Hc1 Logic.I).
      rewrite Hu; [exact Hl|]. intros k Hk0. apply app_root_neq. intro X. apply Hc1. exists k. exact X.
    + intros i k Hin Hk0 Hcase. apply in_app_or in Hin as [Hin|[Hin|[]]].
      * apply Hk. exact (tk_dirs _ _ _ Hok i k Hin Hk0 Hcase).
      * subst i. cbn [path_of] in *. apply Hd. exact Hk0.
    + intros rel Hrel Hl.
      destruct (loc_eqb rel (firstn (length rel) ns)) eqn:Eq.
      * apply loc_eqb_eq in Eq. destruct (Nat.le_gt_cases (length rel) (length ns)) as [Hle|Hgt].
        -- exists (IDir ns mo), (length rel). split; [apply in_or_app; right; now left|]. cbn [path_of]. split; [|exact Eq].
           split; [destruct rel; [contradiction|cbn [length]; lia]|exact Hle].
        -- exfalso. apply (f_equal (@length _)) in Eq. rewrite firstn_length in Eq. lia.
      * assert (Hold : lookup t' (root ++ rel) = lookup t (root ++ rel)).
        { apply Hu. intros k Hk0. apply app_root_neq. intro X. subst rel. rewrite firstn_len_self in Eq by lia.
          rewrite loc_eqb_refl in Eq. discriminate. }
        rewrite Hold in Hl. destruct (tk_only _ _ _ Hok rel Hrel Hl) as (i & k & Hi & Hk0 & Er).
        exists i, k. split; [apply in_or_app; now left|]. auto.
Qed.

Lemma extract_items umask root : forall todo done t lg,
  tree_ok root t done -> (forall d x, In d done -> In x todo -> compat d x) -> ForallOrdPairs compat todo ->
  Forall (fun x => plain (path_of x)) todo ->
  exists t' lg', extract umask root (t, lg) (map entry_of todo) = ((t', lg'), XOk) /\ tree_ok root t' (done ++ todo).
Proof.
  induction todo as [|x r IH]; intros done t lg Hok Hc Hpairs Hpl.
  - exists t, lg. cbn [map extract]. rewrite app_nil_r. auto.
  - inversion Hpairs as [|? ? Hx Hr]; subst. inversion Hpl as [|? ? Hpx Hpr]; subst.
    destruct (extract_step umask root t lg done x Hok (fun d Hd => Hc d x Hd (or_introl eq_refl)) Hpx) as (t1 & lg1 & E1 & Hok1).
    destruct (IH (done ++ [x]) t1 lg1 Hok1) as (t' & lg' & E & Hok'); [|exact Hr|exact Hpr|].
    + intros d y Hd Hy. apply in_app_or in Hd as [Hd|[<-|[]]]; [apply Hc; [exact Hd|now right]|].
      rewrite Forall_forall in Hx. now apply Hx.
    + exists t', lg'. cbn [map extract]. rewrite E1, E. split; [reflexivity|]. now rewrite <- app_assoc in Hok'.
Qed.

(* extraction of a consistent archive of plain entries into an empty target directory *)
Theorem extract_plain_archive umask root t0 lg0 items :
  (forall rel, rel <> [] -> lookup t0 (root ++ rel) = None) ->
  ForallOrdPairs compat items -> Forall (fun x => plain (path_of x)) items ->
  exists t' lg', extract umask root (t0, lg0) (map entry_of items) = ((t', lg'), XOk) /\ tree_ok root t' items.
Proof.
  intros Hempty Hpairs Hpl.
  assert (H0 : tree_ok root t0 []).
  { constructor; try (intros; contradiction). intros rel Hrel Hl. exfalso. apply Hl. now apply Hempty. }
  destruct (extract_items umask root items [] t0 lg0 H0 (fun d x Hd => False_ind _ Hd) Hpairs Hpl) as (t' & lg' & E & Hok).
  exists t', lg'. auto.
Qed.

(* ---------- the streaming extractor's file phase is the seekable extractor without the modes *)
Definition strip_mode (i : item) : item := match i with IFile ns c _ => IFile ns c None | IDir ns _ => IDir ns None end.

Lemma sextract_files_as_extract umask root : forall items st,
  sextract_files umask root st (map entry_of items) = extract umask root st (map entry_of (map strip_mode items)).
Proof.
  induction items as [|i r IH]; intro st; [reflexivity|]. cbn [map sextract_files extract].
  assert (E : sextract_file umask root st (entry_of i) = extract_entry umask root st (entry_of (strip_mode i))) by (destruct i; reflexivity).
  rewrite E. destruct (extract_entry umask root st (entry_of (strip_mode i))) as [st1 [| |]]; auto.
Qed.

Lemma compat_strip a b : compat a b -> compat (strip_mode a) (strip_mode b).
Proof. destruct a, b; cbn; auto. Qed.
Lemma pairs_strip items : ForallOrdPairs compat items -> ForallOrdPairs compat (map strip_mode items).
Proof.
  induction 1 as [|a l Ha Hl IH]; cbn [map]; constructor; [|exact IH].
  rewrite Forall_forall in *. intros y Hy. apply in_map_iff in Hy as (z & <- & Hz). apply compat_strip. now apply Ha.
Qed.
Lemma plain_strip items : Forall (fun x => plain (path_of x)) items -> Forall (fun x => plain (path_of x)) (map strip_mode items).
Proof. intro H. rewrite Forall_forall in *. intros y Hy. apply in_map_iff in Hy as (z & <- & Hz). destruct z; cbn; now apply (H _ Hz). Qed.

Theorem sextract_plain_files umask root t0 lg0 items :
  (forall rel, rel <> [] -> lookup t0 (root ++ rel) = None) ->
  ForallOrdPairs compat items -> Forall (fun x => plain (path_of x)) items ->
  exists t' lg', sextract_files umask root (t0, lg0) (map entry_of items) = ((t', lg'), XOk) /\ tree_ok root t' (map strip_mode items).
Proof.
  intros He Hp Hpl. rewrite sextract_files_as_extract.
  exact (extract_plain_archive umask root t0 lg0 (map strip_mode items) He (pairs_strip _ Hp) (plain_strip _ Hpl)).
Qed.

(* ---------- the streaming extractor's second phase: one chmod per central record *)
Definition mode_of (i : item) : option N := match i with IFile _ _ mo | IDir _ mo => mo end.
Definition meta_of (i : item) : bytes * option N := (x_name (entry_of i), mode_of i).

Lemma pfx_refl (a : list bytes) : pfx a a.
Proof. exists (length a). now rewrite firstn_all. Qed.

(* chmod changes modes only: two trees of the same kind (same objects, same file contents) *)
Definition same_kind (t t' : fs) : Prop :=
  forall l, match lookup t l, lookup t' l with
            | Some (NFile c _), Some (NFile c' _) => c = c'
            | Some (NDir _), Some (NDir _) => True
            | None, None => True
            | _, _ => False
            end.

Lemma same_kind_update_file t l c m m' : lookup t l = Some (NFile c m) -> same_kind t (update t l (NFile c m')).
Proof.
  intros H l0. destruct (loc_eqb l l0) eqn:E.
  - apply loc_eqb_eq in E. subst l0. rewrite lookup_update_same, H. reflexivity.
  - rewrite lookup_update_other by (intro X; rewrite X, loc_eqb_refl in E; discriminate).
    destruct (lookup t l0) as [[?|? ?]|]; auto.
Qed.
Lemma same_kind_update_dir t l m m' : lookup t l = Some (NDir m) -> same_kind t (update t l (NDir m')).
Proof.
  intros H l0. destruct (loc_eqb l l0) eqn:E.
  - apply loc_eqb_eq in E. subst l0. rewrite lookup_update_same, H. exact Logic.I.
  - rewrite lookup_update_other by (intro X; rewrite X, loc_eqb_refl in E; discriminate).
    destruct (lookup t l0) as [[?|? ?]|]; auto.
Qed.

(* the shape claims (no mode recorded in the items) survive *)
Lemma shape_same_kind root t t' items : same_kind t t' -> tree_ok root t (map strip_mode items) -> tree_ok root t' (map strip_mode items).
Proof.
  intros Hs [H1 H2 H3]. constructor.
  - intros ns c mo Hi. assert (mo = None) as -> by (apply in_map_iff in Hi as (z & Ez & _); destruct z; cbn in Ez; congruence).
    destruct (H1 _ _ _ Hi) as (m & Hl & _). specialize (Hs (root ++ ns)). rewrite Hl in Hs.
    destruct (lookup t' (root ++ ns)) as [[?|c' m']|]; try contradiction. subst c'. exists m'. split; [reflexivity|discriminate].
  - intros i k Hi Hk Hc. destruct (H2 i k Hi Hk Hc) as [m Hm]. specialize (Hs (root ++ firstn k (path_of i))). rewrite Hm in Hs.
    unfold is_dir. destruct (lookup t' (root ++ firstn k (path_of i))) as [[m'|? ?]|]; try contradiction. now exists m'.
  - intros rel Hrel Hl. apply (H3 rel Hrel). specialize (Hs (root ++ rel)). intro X. rewrite X in Hs.
    destruct (lookup t' (root ++ rel)); [contradiction|]. now apply Hl.
Qed.

Definition modes_done (root : loc) (t : fs) (done : list item) : Prop :=
  forall ns c md, In (IFile ns c (Some md)) done -> exists cc, lookup t (root ++ ns) = Some (NFile cc (N.land md 4095)).

Lemma in_strip i items : In i items -> In (strip_mode i) (map strip_mode items).
Proof. apply in_map. Qed.

Lemma smeta_step root t lg items done x :
  tree_ok root t (map strip_mode items) -> In x items -> plain (path_of x) ->
  modes_done root t done -> (forall d, In d done -> compat d x) ->
  exists t' lg', sextract_meta root (t, lg) (fst (meta_of x)) (snd (meta_of x)) = ((t', lg'), XOk) /\
                 tree_ok root t' (map strip_mode items) /\ modes_done root t' (done ++ [x]).
Proof.
  intros Hok Hin Hp Hm Hc. pose proof Hp as [Hne Hg]. pose proof (plain_goodb _ Hg) as Hgb.
  pose proof (in_strip _ _ Hin) as Hin_x.
  unfold sextract_meta, meta_of. cbn [fst snd].
  destruct x as [ns c mo|ns mo]; cbn [entry_of file_entry dir_entry x_name mode_of path_of strip_mode] in *.
  - rewrite (enclosed_plain _ Hp), (split_join_good _ Hne Hgb).
    destruct mo as [md|].
    + destruct (exists_last Hne) as (pre & last & ->).
      destruct (tk_files _ _ _ Hok _ _ _ Hin_x) as (m0 & Hl0 & _).
      assert (Hd : forall k, (1 <= k <= length pre)%nat -> is_dir t (root ++ firstn k pre)).
      { intros k Hk. rewrite <- (firstn_app_le pre [last] k) by lia.
        apply (tk_dirs _ _ _ Hok (IFile (pre ++ [last]) c None) k Hin_x); cbn [path_of]; rewrite app_length; cbn [length]; [lia|left; lia]. }
      rewrite (chmod_file_spec t root pre last md lg c m0 Hgb Hd Hl0). cbn [fst snd].
      eexists. eexists. split; [reflexivity|]. split.
      * exact (shape_same_kind root _ _ items (same_kind_update_file t _ c m0 _ Hl0) Hok).
      * intros ns' c' md' Hi. apply in_app_or in Hi as [Hi|[Hi|[]]].
        -- destruct (Hm _ _ _ Hi) as (cc & Hcc). exists cc. rewrite lookup_update_other; [exact Hcc|].
           apply app_root_neq. intro X. destruct (Hc _ Hi) as [Hc1 _]. apply (Hc1 Logic.I). cbn [path_of]. rewrite <- X. apply pfx_refl.
        -- injection Hi as <- <- <-. exists c. apply lookup_update_same.
    + exists t, lg. split; [reflexivity|]. split; [exact Hok|].
      intros ns' c' md' Hi. apply in_app_or in Hi as [Hi|[Hi|[]]]; [now apply (Hm _ _ _ Hi)|discriminate Hi].
  - rewrite (enclosed_dirname _ Hp), (split_dirname _ Hp).
    destruct mo as [md|].
    + assert (Hd : forall k, (1 <= k <= length ns)%nat -> is_dir t (root ++ firstn k ns)).
      { intros k Hk. apply (tk_dirs _ _ _ Hok (IDir ns None) k Hin_x Hk). right. exact (fun f => f). }
      destruct (Hd (length ns)) as [m0 Hl0]; [destruct ns; [contradiction|cbn [length]; lia]|]. rewrite firstn_all in Hl0.
      rewrite (chmod_dir_spec t root ns md lg m0 Hgb Hd Hl0). cbn [fst snd].
      eexists. eexists. split; [reflexivity|]. split.
      * exact (shape_same_kind root _ _ items (same_kind_update_dir t _ m0 _ Hl0) Hok).
      * intros ns' c' md' Hi. apply in_app_or in Hi as [Hi|[Hi|[]]]; [|discriminate Hi].
        destruct (Hm _ _ _ Hi) as (cc & Hcc). exists cc. rewrite lookup_update_other; [exact Hcc|].
        intro X. rewrite X in Hl0. rewrite Hl0 in Hcc. discriminate.
    + exists t, lg. split; [reflexivity|]. split; [exact Hok|].
      intros ns' c' md' Hi. apply in_app_or in Hi as [Hi|[Hi|[]]]; [now apply (Hm _ _ _ Hi)|discriminate Hi].
Qed.

Lemma smeta_items root items : forall todo done t lg,
  tree_ok root t (map strip_mode items) -> (forall x, In x todo -> In x items) -> Forall (fun x => plain (path_of x)) todo ->
  modes_done root t done -> (forall d x, In d done -> In x todo -> compat d x) -> ForallOrdPairs compat todo ->
  exists t' lg', sextract_metas root (t, lg) (map meta_of todo) = ((t', lg'), XOk) /\
                 tree_ok root t' (map strip_mode items) /\ modes_done root t' (done ++ todo).
Proof.
  induction todo as [|x r IH]; intros done t lg Hok Hsub Hpl Hm Hc Hpairs.
  - exists t, lg. cbn [map sextract_metas]. rewrite app_nil_r. auto.
  - inversion Hpairs as [|? ? Hx Hr]; subst. inversion Hpl as [|? ? Hpx Hpr]; subst.
    destruct (smeta_step root t lg items done x Hok (Hsub x (or_introl eq_refl)) Hpx Hm (fun d Hd => Hc d x Hd (or_introl eq_refl)))
      as (t1 & lg1 & E1 & Hok1 & Hm1).
    destruct (IH (done ++ [x]) t1 lg1 Hok1 (fun y Hy => Hsub y (or_intror Hy)) Hpr Hm1) as (t' & lg' & E & Hok' & Hm'); [|exact Hr|].
    + intros d y Hd Hy. apply in_app_or in Hd as [Hd|[<-|[]]]; [apply Hc; [exact Hd|now right]|]. rewrite Forall_forall in Hx. now apply Hx.
    + exists t', lg'. cbn [map sextract_metas]. unfold meta_of at 1. cbn [fst snd] in E1. 
      change (sextract_meta root (t, lg) (x_name (entry_of x)) (mode_of x)) with (sextract_meta root (t, lg) (fst (meta_of x)) (snd (meta_of x))).
      rewrite E1, E. split; [reflexivity|]. split; [exact Hok'|]. now rewrite <- app_assoc in Hm'.
Qed.

(* both phases of the streaming extractor on a consistent archive of plain entries *)
Theorem sextract_plain_archive umask root t0 lg0 items :
  (forall rel, rel <> [] -> lookup t0 (root ++ rel) = None) ->
  ForallOrdPairs compat items -> Forall (fun x => plain (path_of x)) items ->
  exists t1 lg1 t' lg',
    sextract_files umask root (t0, lg0) (map entry_of items) = ((t1, lg1), XOk) /\
    sextract_metas root (t1, lg1) (map meta_of items) = ((t', lg'), XOk) /\ tree_ok root t' items.
Proof.
  intros He Hp Hpl.
  destruct (sextract_plain_files umask root t0 lg0 items He Hp Hpl) as (t1 & lg1 & E1 & Hok1).
  destruct (smeta_items root items items [] t1 lg1 Hok1 (fun x H => H) Hpl (fun _ _ _ H => False_ind _ H) (fun d x Hd => False_ind _ Hd) Hp)
    as (t' & lg' & E2 & Hok2 & Hm2).
  exists t1, lg1, t', lg'. split; [exact E1|]. split; [exact E2|]. cbn [app] in Hm2.
  destruct Hok2 as [H1 H2 H3]. constructor.
  - intros ns c mo Hi. destruct (H1 ns c None (in_strip _ _ Hi)) as (m & Hl & _). exists m. split; [exact Hl|].
    intros md ->. destruct (Hm2 _ _ _ Hi) as (cc & Hcc). rewrite Hl in Hcc. now injection Hcc.
  - intros i k Hi Hk Hc. specialize (H2 (strip_mode i) k (in_strip _ _ Hi)). destruct i; cbn [strip_mode path_of is_file] in *; now apply H2.
  - intros rel Hrel Hl. destruct (H3 rel Hrel Hl) as (i & k & Hi & Hk & Er). apply in_map_iff in Hi as (z & <- & Hz).
    exists z, k. destruct z; cbn [strip_mode path_of] in *; auto.
Qed.
