(* Proofs/FaultStreams.v — C11, reader side: the same stream denotations when the underlying source may FAIL at
   any call.  [fstreams] is [streams] with one change: an error may come at any time (not only on a Bad stream).
   Every layer preserves it, and every schedule satisfies: the bytes delivered before the first error are a prefix
   of the denoted content, and a read that reaches a clean end of file delivered exactly the denoted content.
   So a failing source surfaces as an error or as the failure-free result, never as different bytes. *)
From Coq Require Import ZArith.
From ZipV Require Import Base.Bytes Base.Outcome Model.Readers Proofs.StreamProofs.
Open Scope N_scope.

Definition fstep_ok {S} (D : S -> den) (Inv : S -> Prop) (s : S) (n : N) (r : res (bytes * S)) : Prop :=
  match r with
  | Ok (bs, s') =>
      Inv s' /\ len bs <= n /\
      match D s with
      | Good d => exists d', d = bs ++ d' /\ D s' = Good d' /\ (0 < n -> bs = [] -> d = [])
      | Bad => D s' = Bad /\ (0 < n -> bs <> [])
      end
  | Err _ => True
  | Panic _ => False
  end.
Definition fstreams {S} (rd : reader S) (Inv : S -> Prop) (D : S -> den) : Prop :=
  forall s n, Inv s -> fstep_ok D Inv s n (rd s n).

Lemma streams_fstreams {S} (rd : reader S) Inv D : streams rd Inv D -> fstreams rd Inv D.
Proof.
  intros H s n Hi. specialize (H s n Hi). unfold step_ok in H. unfold fstep_ok.
  destruct (rd s n) as [[bs s']|e|p]; auto.
Qed.

Section FLift.
  Context {S : Type} (rd : reader S) (Inv : S -> Prop) (D : S -> den).
  Hypothesis H : fstreams rd Inv D.

  (* whatever happens, what was delivered is a prefix of the truth *)
  Theorem fault_prefix : forall bufs s d outs sf,
    Inv s -> D s = Good d -> run_reads rd s bufs = (outs, sf) -> exists rest, d = oks outs ++ rest.
  Proof.
    induction bufs as [|n bufs IH]; intros s d outs sf Hi Hd Hr; cbn [run_reads] in Hr.
    - injection Hr as <- <-. exists d. reflexivity.
    - pose proof (H s n Hi) as Hs. unfold fstep_ok in Hs. rewrite Hd in Hs.
      destruct (rd s n) as [[bs s']|e|p]; [| |contradiction].
      + destruct Hs as (Hi' & Hl & d' & -> & Hd' & _).
        destruct (run_reads rd s' bufs) as [outs' sf'] eqn:Er. injection Hr as <- <-.
        destruct (IH s' d' outs' sf' Hi' Hd' Er) as [rest ->].
        exists rest. unfold oks. cbn [flat_map]. now rewrite <- app_assoc.
      + injection Hr as <- <-. exists d. reflexivity.
  Qed.

  (* a clean end of file means everything was delivered *)
  Theorem fault_complete : forall bufs s d outs sf k n,
    Inv s -> D s = Good d -> run_reads rd s bufs = (outs, sf) ->
    nth_error bufs k = Some n -> 0 < n -> nth_error outs k = Some (Ok []) -> oks (firstn k outs) = d.
  Proof.
    induction bufs as [|m bufs IH]; intros s d outs sf k n Hi Hd Hr Hk Hn Ho.
    - destruct k; discriminate.
    - cbn [run_reads] in Hr. pose proof (H s m Hi) as Hs. unfold fstep_ok in Hs. rewrite Hd in Hs.
      destruct (rd s m) as [[bs s']|e|p]; [| |contradiction].
      + destruct Hs as (Hi' & Hl & d' & -> & Hd' & Heof).
        destruct (run_reads rd s' bufs) as [outs' sf'] eqn:Er. injection Hr as <- <-.
        destruct k as [|k].
        * cbn in Hk, Ho. injection Hk as ->. injection Ho as ->. specialize (Heof Hn eq_refl). cbn [app] in Heof. subst d'. reflexivity.
        * cbn in Hk, Ho. rewrite <- (IH s' d' outs' sf' k n Hi' Hd' Er Hk Hn Ho).
          cbn [firstn]. unfold oks. cbn [flat_map]. reflexivity.
      + injection Hr as <- <-. destruct k as [|k]; cbn in Ho; [discriminate|]. destruct k; discriminate.
  Qed.

  (* a corrupted stream never completes, failures or not *)
  Theorem fault_bad : forall bufs s outs sf k n,
    Inv s -> D s = Bad -> run_reads rd s bufs = (outs, sf) ->
    nth_error bufs k = Some n -> 0 < n -> nth_error outs k <> Some (Ok []).
  Proof.
    induction bufs as [|m bufs IH]; intros s outs sf k n Hi Hd Hr Hk Hn.
    - destruct k; discriminate.
    - cbn [run_reads] in Hr. pose proof (H s m Hi) as Hs. unfold fstep_ok in Hs. rewrite Hd in Hs.
      destruct (rd s m) as [[bs s']|e|p]; [| |contradiction].
      + destruct Hs as (Hi' & Hl & Hd' & Hne).
        destruct (run_reads rd s' bufs) as [outs' sf'] eqn:Er. injection Hr as <- <-.
        destruct k as [|k].
        * cbn in Hk |- *. injection Hk as ->. intros [= ->]. now apply (Hne Hn).
        * cbn in Hk |- *. exact (IH s' outs' sf' k n Hi' Hd' Er Hk Hn).
      + injection Hr as <- <-. destruct k as [|k]; cbn; [discriminate|]. destruct k; discriminate.
  Qed.
End FLift.

(* ---------- the source with ANY plan, failures included *)
Lemma src_fstreams : fstreams src_read (fun _ => True) (fun s => Good (s_data s)).
Proof.
  intros s n _. unfold fstep_ok, src_read. destruct s as [data plan]; cbn [s_plan s_data] in *.
  destruct plan as [|[c|] plan]; [| |exact Logic.I].
  - cbn [s_plan s_data]. split; [exact Logic.I|]. split; [rewrite len_take; lia|].
    exists (drop n data). split; [now rewrite take_drop|]. split; [reflexivity|].
    intros Hn Hz. assert (len (take n data) = 0) as Hl by (now rewrite Hz).
    rewrite len_take in Hl. destruct data; [reflexivity|]. unfold len in Hl. cbn [length] in Hl. lia.
  - cbn [s_plan s_data]. split; [exact Logic.I|]. split; [rewrite len_take; lia|].
    exists (drop (N.min n (N.max 1 c)) data). split; [now rewrite take_drop|]. split; [reflexivity|].
    intros Hn Hz. assert (len (take (N.min n (N.max 1 c)) data) = 0) as Hl by (now rewrite Hz).
    rewrite len_take in Hl. destruct data; [reflexivity|]. unfold len in Hl. cbn [length] in Hl. lia.
Qed.

(* ---------- Take *)
Section FTake.
  Context {I : Type} (ird : reader I) (Inv : I -> Prop) (Di : I -> den).
  Hypothesis Hi : fstreams ird Inv Di.
  Hypothesis Hg : always_good Inv Di.

  Lemma take_fstreams : fstreams (take_read ird) (fun s => Inv (t_inner s)) (take_den Di).
  Proof.
    intros [i lim] n Hinv. cbn [t_inner] in Hinv. unfold fstep_ok, take_read, take_den; cbn [t_limit t_inner].
    destruct (lim =? 0) eqn:El.
    - cbn [t_inner t_limit]. rewrite El. split; [assumption|]. split; [unfold len; cbn; lia|].
      exists []. repeat split; reflexivity.
    - pose proof (Hi i (N.min n lim) Hinv) as Hs. unfold fstep_ok in Hs.
      destruct (Hg i Hinv) as [d Hd]. rewrite Hd in Hs |- *.
      destruct (ird i (N.min n lim)) as [[bs i']|e|p]; cbn [bind]; [|exact Logic.I|contradiction].
      destruct Hs as (Hinv' & Hl & d' & -> & Hd' & Heof). cbn [t_inner t_limit].
      split; [assumption|]. split; [lia|].
      destruct (lim - len bs =? 0) eqn:El2.
      + exists []. split.
        * rewrite app_nil_r. assert (len bs = lim) as Hb by lia. rewrite <- Hb. now rewrite take_app_exact.
        * split; [reflexivity|]. intros Hn ->. unfold len in *. cbn in *. lia.
      + rewrite Hd'. exists (take (lim - len bs) d'). split.
        * rewrite !take_firstn. replace (N.to_nat lim) with (length bs + N.to_nat (lim - len bs))%nat
            by (unfold len in *; lia).
          rewrite firstn_app_2. reflexivity.
        * split; [reflexivity|]. intros Hn ->. cbn [app]. unfold len; cbn [length].
          replace (lim - N.of_nat 0) with lim by lia.
          pose proof (Heof ltac:(lia) eq_refl) as E. cbn [app] in E. rewrite E. rewrite take_firstn. now rewrite firstn_nil.
  Qed.
End FTake.

(* ---------- ZipCrypto *)
Section FZc.
  Context {I : Type} (ird : reader I) (Inv : I -> Prop) (Di : I -> den).
  Hypothesis Hi : fstreams ird Inv Di.

  Lemma zc_fstreams : fstreams (zc_read ird) (fun s => Inv (z_inner s)) (zc_den Di).
  Proof.
    intros [i k] n Hinv. cbn [z_inner] in Hinv. unfold fstep_ok, zc_read, zc_den; cbn [z_inner z_keys].
    pose proof (Hi i n Hinv) as Hs. unfold fstep_ok in Hs.
    destruct (ird i n) as [[ct i']|e|p]; cbn [bind]; [|exact Logic.I|contradiction].
    destruct Hs as (Hinv' & Hl & Hs).
    pose proof (zc_decrypt_len ct k) as Hlen.
    destruct (zc_decrypt k ct) as [k' pt] eqn:Ed. cbn [snd] in Hlen. cbn [z_inner z_keys].
    split; [assumption|]. split; [unfold len in *; lia|].
    destruct (Di i) as [d|].
    + destruct Hs as (d' & -> & Hd' & Heof). rewrite Hd'.
      exists (snd (zc_decrypt k' d')). split.
      * rewrite zc_decrypt_app, Ed. destruct (zc_decrypt k' d'); reflexivity.
      * split; [reflexivity|]. intros Hn ->. destruct ct; [|discriminate].
        rewrite (Heof Hn eq_refl). reflexivity.
    + destruct Hs as [Hd' Hne]. rewrite Hd'. split; [reflexivity|].
      intros Hn ->. destruct ct; [|discriminate]. now apply Hne.
  Qed.
End FZc.

(* ---------- Crc32Reader *)
Section FCrc.
  Variable crc : bytes -> N.
  Context {I : Type} (ird : reader I) (Inv : I -> Prop) (Di : I -> den).
  Hypothesis Hi : fstreams ird Inv Di.

  Lemma crc_fstreams : fstreams (crc_read crc ird) (fun s => Inv (k_inner s)) (crc_den crc Di).
  Proof.
    intros [i seen chk ae2] n Hinv. cbn [k_inner] in Hinv.
    unfold fstep_ok, crc_read, crc_den; cbn [k_inner k_seen k_check k_ae2].
    pose proof (Hi i n Hinv) as Hs. unfold fstep_ok in Hs.
    destruct (ird i n) as [[bs i']|e|p]; cbn [bind]; [|exact Logic.I|contradiction].
    destruct Hs as (Hinv' & Hl & Hs).
    destruct (Di i) as [d|] eqn:Edi.
    + destruct Hs as (d' & -> & Hd' & Heof).
      destruct (len bs =? 0) eqn:Eb.
      * assert (bs = []) as -> by (destruct bs; [reflexivity|unfold len in Eb; cbn in Eb; lia]).
        cbn [app] in *. cbn [andb].
        destruct (n =? 0) eqn:En; cbn [negb andb].
        -- cbn [k_inner k_seen k_check k_ae2]. rewrite app_nil_r, Hd'.
           split; [assumption|]. split; [assumption|].
           destruct (ae2 || (crc (seen ++ d') =? chk)).
           ++ exists d'. split; [reflexivity|]. split; [reflexivity|]. lia.
           ++ split; [reflexivity|]. lia.
        -- assert (d' = []) as -> by (apply Heof; [lia|reflexivity]).
           rewrite app_nil_r.
           destruct (crc seen =? chk) eqn:Ec; destruct ae2; cbn [negb andb orb];
             cbn [k_inner k_seen k_check k_ae2]; rewrite ?Hd'; rewrite ?app_nil_r; rewrite ?Ec; cbn [orb];
             try exact Logic.I;
             (split; [assumption|]; split; [assumption|]; exists []; repeat split; reflexivity).
      * cbn [andb]. cbn [k_inner k_seen k_check k_ae2]. rewrite Hd', <- app_assoc.
        split; [assumption|]. split; [assumption|].
        destruct (ae2 || (crc (seen ++ bs ++ d') =? chk)).
        -- exists d'. split; [reflexivity|]. split; [reflexivity|]. intros _ ->. unfold len in Eb. cbn in Eb. lia.
        -- split; [reflexivity|]. intros _ ->. unfold len in Eb. cbn in Eb. lia.
    + destruct Hs as [Hd' Hne].
      destruct (len bs =? 0) eqn:Eb.
      * assert (bs = []) as -> by (destruct bs; [reflexivity|unfold len in Eb; cbn in Eb; lia]).
        destruct (n =? 0) eqn:En; cbn [negb andb].
        -- cbn [k_inner k_seen k_check k_ae2]. rewrite Hd'. repeat split; try assumption; lia.
        -- exfalso. apply Hne; [lia|reflexivity].
      * cbn [andb]. cbn [k_inner k_seen k_check k_ae2]. rewrite Hd'. repeat split; try assumption;
          try (intros _ E; subst bs; unfold len in Eb; cbn in Eb; lia).
  Qed.
End FCrc.

(* the composed stack of a stored entry (plain or ZipCrypto) over a source that may fail at any call *)
Theorem stored_stack_fstreams crc :
  fstreams (crc_read crc (take_read src_read)) (fun _ => True)
           (crc_den crc (take_den (fun s : src => Good (s_data s)))).
Proof.
  pose proof (take_fstreams src_read (fun _ => True) (fun s => Good (s_data s)) src_fstreams
                (fun s _ => ex_intro _ (s_data s) eq_refl)) as Ht.
  exact (crc_fstreams crc (take_read src_read) _ _ Ht).
Qed.

Theorem zipcrypto_stack_fstreams crc :
  fstreams (crc_read crc (zc_read (take_read src_read))) (fun _ => True)
           (crc_den crc (zc_den (take_den (fun s : src => Good (s_data s))))).
Proof.
  pose proof (take_fstreams src_read (fun _ => True) (fun s => Good (s_data s)) src_fstreams
                (fun s _ => ex_intro _ (s_data s) eq_refl)) as Ht.
  pose proof (zc_fstreams (take_read src_read) _ _ Ht) as Hz.
  exact (crc_fstreams crc (zc_read (take_read src_read)) _ _ Hz).
Qed.
