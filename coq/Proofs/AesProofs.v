(* Proofs/AesProofs.v — C16/C09: the AES-CTR keystream and the authenticating reader (src/aes.rs,
   src/aes_ctr.rs) for an arbitrary block cipher [blk] and MAC function [mac]. *)
From ZipV Require Import Base.Bytes Base.Outcome Base.Bits Model.Readers Proofs.StreamProofs.
Open Scope N_scope.

Lemma bxor_invol d k : bxor (bxor d k) k = d.
Proof.
  unfold bxor. rewrite b2n_n2b.
  rewrite N.mod_small by (apply lxor_byte; apply b2n_lt).
  rewrite N.lxor_assoc, N.lxor_nilpotent, N.lxor_0_r. apply n2b_b2n.
Qed.

Section Ctr.
  Variable blk : bytes -> bytes -> bytes.

  (* the keystream position is a function of the number of bytes processed: chunking is irrelevant *)
  Lemma ctr_crypt_app : forall a s b,
    ctr_crypt blk s (a ++ b) =
    let '(s1, oa) := ctr_crypt blk s a in let '(s2, ob) := ctr_crypt blk s1 b in (s2, oa ++ ob).
  Proof.
    induction a as [|d a IH]; intros s b; cbn [app ctr_crypt].
    - destruct (ctr_crypt blk s b); reflexivity.
    - set (s1 := if c_pos s =? 16 then _ else s).
      set (s2 := {| c_key := c_key s1; c_counter := c_counter s1; c_buf := c_buf s1; c_pos := c_pos s1 + 1 |}).
      rewrite IH. destruct (ctr_crypt blk s2 a) as [s3 oa]. destruct (ctr_crypt blk s3 b) as [s4 ob]. reflexivity.
  Qed.

  Lemma ctr_crypt_len : forall a s, length (snd (ctr_crypt blk s a)) = length a.
  Proof.
    induction a as [|d a IH]; intro s; cbn [ctr_crypt]; [reflexivity|].
    set (s2 := {| c_key := _; c_counter := _; c_buf := _; c_pos := _ |}).
    specialize (IH s2). destruct (ctr_crypt blk s2 a) as [s3 oa]. cbn [snd length] in *. now rewrite IH.
  Qed.

  (* the state evolution does not depend on the data, only on its length *)
  Lemma ctr_state_indep : forall a b s, length a = length b ->
    fst (ctr_crypt blk s a) = fst (ctr_crypt blk s b).
  Proof.
    induction a as [|d a IH]; intros [|e b] s Hl; cbn [length] in Hl; try discriminate; [reflexivity|].
    cbn [ctr_crypt].
    set (s2 := {| c_key := _; c_counter := _; c_buf := _; c_pos := _ |}).
    specialize (IH b s2 ltac:(lia)).
    destruct (ctr_crypt blk s2 a) as [s3 oa]. destruct (ctr_crypt blk s2 b) as [s3' ob]. cbn [fst] in *. exact IH.
  Qed.

  (* decryption undoes encryption from the same keystream position *)
  Theorem ctr_involutive : forall a s, snd (ctr_crypt blk s (snd (ctr_crypt blk s a))) = a.
  Proof.
    induction a as [|d a IH]; intro s; cbn [ctr_crypt]; [reflexivity|].
    set (s1 := if c_pos s =? 16 then _ else s).
    set (s2 := {| c_key := c_key s1; c_counter := c_counter s1; c_buf := c_buf s1; c_pos := c_pos s1 + 1 |}).
    specialize (IH s2). destruct (ctr_crypt blk s2 a) as [s3 oa] eqn:E. cbn [snd] in *.
    cbn [ctr_crypt]. fold s1. fold s2.
    destruct (ctr_crypt blk s2 oa) as [s4 ob]. cbn [snd] in *. now rewrite bxor_invol, IH.
  Qed.
End Ctr.

(* ---------- read_exact over a streaming inner reader *)
Section ReadExact.
  Context {I : Type} (ird : reader I) (Inv : I -> Prop) (Di : I -> den).
  Hypothesis Hi : streams ird Inv Di.

  Lemma read_exact_good : forall fuel i k r, Inv i -> Di i = Good r -> (N.to_nat k < fuel)%nat ->
    (k <= len r -> exists i', read_exact_fuel ird fuel i k = Ok (take k r, i') /\ Inv i' /\ Di i' = Good (drop k r)) /\
    (len r < k -> exists e, read_exact_fuel ird fuel i k = Err e).
  Proof.
    induction fuel as [|fuel IH]; intros i k r Hinv Hd Hf; [lia|].
    cbn [read_exact_fuel]. destruct (k =? 0) eqn:Ek.
    - assert (k = 0) as -> by lia. split; [|lia]. intros _. exists i.
      rewrite take_firstn, drop_skipn. cbn. now repeat split.
    - pose proof (Hi i k Hinv) as Hs. unfold step_ok in Hs. rewrite Hd in Hs.
      destruct (ird i k) as [[bs i1]|e|p]; [|discriminate|contradiction]. cbn [bind].
      destruct Hs as (Hinv1 & Hl & r' & -> & Hd1 & Heof).
      destruct (len bs =? 0) eqn:Eb.
      + assert (bs = []) as -> by (destruct bs; [reflexivity|unfold len in Eb; cbn in Eb; lia]).
        specialize (Heof ltac:(lia) eq_refl). cbn [app] in *. subst r'.
        split; [unfold len; cbn; lia|]. intros _. eauto.
      + destruct (IH i1 (k - len bs) r' Hinv1 Hd1 ltac:(lia)) as [IHg IHb].
        rewrite len_app. split.
        * intro Hk. destruct (IHg ltac:(lia)) as (i' & E & Hi' & Hd'). rewrite E. cbn [bind].
          exists i'. split; [|split; [assumption|]].
          -- f_equal. f_equal. rewrite !take_firstn.
             replace (N.to_nat k) with (length bs + N.to_nat (k - len bs))%nat by (unfold len in *; lia).
             now rewrite firstn_app_2.
          -- rewrite Hd'. f_equal. rewrite !drop_skipn.
             replace (N.to_nat k) with (length bs + N.to_nat (k - len bs))%nat by (unfold len in *; lia).
             rewrite skipn_app. rewrite (skipn_all2 bs) by lia. cbn [app].
             f_equal. lia.
        * intro Hk. destruct (IHb ltac:(lia)) as [e E]. rewrite E. cbn [bind]. eauto.
  Qed.
End ReadExact.

(* ---------- the authenticating reader *)
Section Aes.
  Variables (blk : bytes -> bytes -> bytes) (mac : bytes -> bytes -> bytes).
  Context {I : Type} (ird : reader I) (Inv : I -> Prop) (Di : I -> den).
  Hypothesis Hi : streams ird Inv Di.
  Hypothesis Hg : always_good Inv Di.

  Definition aes_den (s : aes_st (I := I)) : den :=
    match Di (a_inner s) with
    | Bad => Bad
    | Good r =>
        let rem := a_remaining s in
        if rem =? 0 then Good []
        else if len r <? rem + 10 then Bad
        else if bytes_eqb (firstn 10 (mac (a_hkey s) (a_seen s ++ take rem r))) (take 10 (drop rem r))
             then Good (snd (ctr_crypt blk (a_ctr s) (take rem r))) else Bad
    end.

  Definition aes_inv' (s : aes_st (I := I)) : Prop := Inv (a_inner s) /\ (a_final s = true -> a_remaining s = 0).

  Lemma take_app_split (a b : bytes) n : len a <= n -> take n (a ++ b) = a ++ take (n - len a) b.
  Proof.
    intro H. rewrite !take_firstn. replace (N.to_nat n) with (length a + N.to_nat (n - len a))%nat by (unfold len in *; lia).
    now rewrite firstn_app_2.
  Qed.
  Lemma drop_app_split (a b : bytes) n : len a <= n -> drop n (a ++ b) = drop (n - len a) b.
  Proof.
    intro H. rewrite !drop_skipn. replace (N.to_nat n) with (length a + N.to_nat (n - len a))%nat by (unfold len in *; lia).
    rewrite skipn_app, (skipn_all2 a) by lia. cbn [app]. f_equal. lia.
  Qed.

  Lemma aes_streams : streams (aes_read blk mac ird) aes_inv' aes_den.
  Proof.
    intros s n [Hinv Hfin]. unfold step_ok, aes_read, aes_den.
    destruct (Hg _ Hinv) as [r Hr]. rewrite Hr.
    destruct (a_remaining s =? 0) eqn:Erem.
    - (* finished *)
      rewrite Hr, Erem. split; [now split|]. split; [unfold len; cbn; lia|].
      exists []. repeat split; reflexivity.
    - set (rem := a_remaining s) in *.
      pose proof (Hi (a_inner s) (N.min rem n) Hinv) as Hs. unfold step_ok in Hs. rewrite Hr in Hs.
      destruct (ird (a_inner s) (N.min rem n)) as [[ct i1]|e|p]; [|discriminate|contradiction]. cbn [bind].
      destruct Hs as (Hinv1 & Hl & r' & -> & Hd1 & Heof).
      destruct ((len ct =? 0) && negb (N.min rem n =? 0)) eqn:Etr.
      + (* fix D16: no data although some was asked for: the inner stream is exhausted *)
        apply andb_true_iff in Etr as [E1 E2]. apply negb_true_iff in E2.
        assert (ct = []) as -> by (destruct ct; [reflexivity|unfold len in E1; cbn in E1; lia]).
        specialize (Heof ltac:(lia) eq_refl). cbn [app] in Heof. subst r'. cbn [app].
        assert ((len (@nil byte) <? rem + 10) = true) as -> by (unfold len; cbn; lia). reflexivity.
      + pose proof (ctr_crypt_len blk ct (a_ctr s)) as Hlen.
        pose proof (ctr_crypt_app blk ct (a_ctr s)) as Happ.
        destruct (ctr_crypt blk (a_ctr s) ct) as [c' pt] eqn:Ec. cbn [snd] in Hlen.
        assert (Hpl : len pt = len ct) by (unfold len; now rewrite Hlen).
        destruct (rem - len ct =? 0) eqn:Erem2.
        * (* the last data bytes: the authentication code follows *)
          assert (Hct : len ct = rem) by lia.
          destruct (a_final s) eqn:Ef; [specialize (Hfin eq_refl); lia|].
          destruct (read_exact_good ird Inv Di Hi (S (N.to_nat 10)) i1 10 r' Hinv1 Hd1 ltac:(lia)) as [Rg Rb].
          unfold read_exact. rewrite len_app.
          destruct (len r' <? 10) eqn:Etag.
          -- destruct (Rb ltac:(lia)) as [e E]. rewrite E. cbn [bind].
             assert ((len ct + len r' <? rem + 10) = true) as -> by lia. reflexivity.
          -- destruct (Rg ltac:(lia)) as (i2 & E & Hinv2 & Hd2). rewrite E. cbn [bind].
             assert ((len ct + len r' <? rem + 10) = false) as -> by lia.
             rewrite <- Hct. rewrite take_app_exact, drop_app_exact.
             destruct (bytes_eqb (firstn 10 (mac (a_hkey s) (a_seen s ++ ct))) (take 10 r')) eqn:Em.
             ++ cbn [a_inner a_remaining a_final]. split; [split; [assumption|reflexivity]|]. split; [lia|].
                rewrite Hd2. change (0 =? 0) with true. cbv iota.
                exists []. rewrite Ec. cbn [snd]. rewrite app_nil_r.
                split; [reflexivity|]. split; [reflexivity|].
                intros Hn ->. exfalso. unfold len in Hpl, Hct. cbn in Hpl. lia.
             ++ reflexivity.
        * (* more data to come *)
          cbn [a_inner a_remaining a_final a_ctr a_hkey a_seen]. split; [split; [assumption|]|].
          { intro Hf'. specialize (Hfin Hf'). lia. }
          split; [lia|]. rewrite Hd1, Erem2, len_app.
          assert (Hle : len ct <= rem) by lia.
          assert (((len r' <? rem - len ct + 10)) = (len ct + len r' <? rem + 10)) as -> by lia.
          destruct (len ct + len r' <? rem + 10).
          -- split; [reflexivity|]. intros Hn ->. unfold len in *. cbn in Hpl.
             apply andb_false_iff in Etr. destruct Etr as [E|E]; [lia|]. apply negb_false_iff in E. lia.
          -- rewrite (take_app_split ct r' rem Hle), (drop_app_split ct r' rem Hle).
             rewrite <- app_assoc.
             destruct (bytes_eqb _ _).
             ++ exists (snd (ctr_crypt blk c' (take (rem - len ct) r'))). split.
                ** rewrite Happ. destruct (ctr_crypt blk c' (take (rem - len ct) r')); reflexivity.
                ** split; [reflexivity|]. intros Hn ->. unfold len in *. cbn in Hpl.
                   apply andb_false_iff in Etr. destruct Etr as [E|E]; [lia|]. apply negb_false_iff in E. lia.
             ++ split; [reflexivity|]. intros Hn ->. unfold len in *. cbn in Hpl.
                apply andb_false_iff in Etr. destruct Etr as [E|E]; [lia|]. apply negb_false_iff in E. lia.
  Qed.

  (* C16 soundness: a read that completes delivered exactly the CTR decryption of the declared
     ciphertext, and the 80-bit MAC over that ciphertext matched the stored authentication code *)
  Theorem aes_sound : forall bufs s outs sf k n r,
    aes_inv' s -> Di (a_inner s) = Good r -> a_remaining s <> 0 ->
    run_reads (aes_read blk mac ird) s bufs = (outs, sf) ->
    nth_error bufs k = Some n -> 0 < n -> nth_error outs k = Some (Ok []) ->
    a_remaining s + 10 <= len r /\
    firstn 10 (mac (a_hkey s) (a_seen s ++ take (a_remaining s) r)) = take 10 (drop (a_remaining s) r) /\
    oks (firstn k outs) = snd (ctr_crypt blk (a_ctr s) (take (a_remaining s) r)).
  Proof.
    intros bufs s outs sf k n r Hinv Hr Hrem Hrun Hk Hn Ho.
    destruct (aes_den s) as [d|] eqn:Ed.
    - destruct (complete_run _ _ _ aes_streams bufs s d outs sf k n Hinv Ed Hrun Hk Hn Ho) as [E _].
      unfold aes_den in Ed. rewrite Hr in Ed.
      destruct (a_remaining s =? 0) eqn:E0; [lia|].
      destruct (len r <? a_remaining s + 10) eqn:E1; [discriminate|].
      destruct (bytes_eqb _ _) eqn:E2; [|discriminate]. injection Ed as <-.
      split; [lia|]. split; [now apply bytes_eqb_eq|assumption].
    - exfalso. exact (run_bad _ _ _ aes_streams bufs s outs sf k n Hinv Ed Hrun Hk Hn Ho).
  Qed.
End Aes.
