(* Proofs/TextProofs.v — C19: CP437 / UTF-8 decoding. *)
From ZipV Require Import Base.Bytes Base.Sweep Gen.Cp437Gen Gen.Cp437Ref Spec.Utf8 Model.Cp437 Proofs.Utf8Proofs.
Open Scope N_scope.
Open Scope bool_scope.

(* the crate's table (regenerated from src/cp437.rs) is the Unicode consortium mapping *)
Lemma table_eq : CP437_TABLE = CP437_REF.
Proof. vm_compute. reflexivity. Qed.

Lemma table_len : length CP437_TABLE = 256%nat.
Proof. vm_compute. reflexivity. Qed.

(* every table entry is a Unicode scalar value below U+10000 (so each byte decodes to one char) *)
Lemma table_scalar : forallb (fun c => (c <? 55296) || ((57344 <=? c) && (c <? 65536))) CP437_TABLE = true.
Proof. vm_compute. reflexivity. Qed.

Definition P_ascii (n : N) : bool := bytes_eqb (utf8_encode_cp (nth (N.to_nat n) CP437_TABLE 0)) [n2b n].
Lemma sweep_ascii : forallb P_ascii (N_range 128) = true.
Proof. vm_compute. reflexivity. Qed.

Lemma cp437_ascii b : b2n b < 128 -> utf8_encode_cp (cp437_char b) = [b].
Proof.
  intro H. pose proof (sweep _ _ sweep_ascii (b2n b) H) as P. unfold P_ascii in P.
  apply bytes_eqb_eq in P. unfold cp437_char. rewrite P. now rewrite n2b_b2n.
Qed.

(* the ASCII fast path computes the same as the per-byte table path *)
Theorem from_cp437_map bs :
  from_cp437 bs = flat_map (fun b => utf8_encode_cp (cp437_char b)) bs.
Proof.
  unfold from_cp437. destruct (is_ascii bs) eqn:E; [|reflexivity].
  induction bs as [|b r IH]; [reflexivity|]. cbn [is_ascii forallb] in E.
  apply andb_true_iff in E as [Hb Hr]. cbn [flat_map]. rewrite cp437_ascii by lia.
  cbn [app]. f_equal. now apply IH.
Qed.

(* ASCII text decodes to itself under either flag value *)
Theorem decode_ascii flag raw : is_ascii raw = true -> decode_text flag raw = raw.
Proof.
  intro E. unfold decode_text. destruct flag; [now apply lossy_ascii|].
  unfold from_cp437. now rewrite E.
Qed.

(* the writer sets the language-encoding flag exactly for non-ASCII names, and either way the
   name is read back as the same string *)
Theorem writer_name_roundtrip cps : forallb scalar cps = true ->
  let name := utf8_encode cps in decode_text (name_flag name) name = name.
Proof.
  intros H name. unfold name_flag. destruct (is_ascii name) eqn:E; cbn [negb].
  - now apply decode_ascii.
  - unfold decode_text. now apply lossy_encode.
Qed.

Example ex_cp437 : from_cp437 [x80; x61] = [xc3; x87; x61].
Proof. vm_compute. reflexivity. Qed.
Example ex_lossy : utf8_lossy [x61; xe2; x82; x41; xc0; xaf] = [x61] ++ REP ++ [x41] ++ REP ++ REP.
Proof. vm_compute. reflexivity. Qed.
