(* Extract/Obs.v — generic request/observation types of the correspondence line protocol. *)
From Coq Require Import Strings.String.
From ZipV Require Import Base.Bytes Base.Outcome.
Open Scope N_scope.

Inductive arg := AN (n : N) | AB (b : bytes).
Inductive obs := ON (n : N) | OB (b : bytes) | OT (tag : bytes) | OL (l : list obs).

Definition T (s : string) : obs := OT (list_byte_of_string s).
Definition opname (s : string) : bytes := list_byte_of_string s.
Definition obool (b : bool) : obs := if b then T "true" else T "false".
Definition oopt {A} (f : A -> obs) (o : option A) : obs :=
  match o with Some a => f a | None => T "NONE" end.

Definition iokind_obs (k : iokind) : obs :=
  match k with
  | KUnexpectedEof => T "UnexpectedEof" | KOther => T "Other" | KBrokenPipe => T "BrokenPipe"
  | KInvalidData => T "InvalidData" | KInvalidInput => T "InvalidInput" | KInjected => T "Injected"
  end.
Definition msg_obs (m : msg) : obs :=
  match m with
  | MInvalidSignatureHeader => T "MInvalidSignatureHeader" | MInvalidZipHeader => T "MInvalidZipHeader"
  | MNoCde => T "MNoCde" | MInvalidZip64Locator => T "MInvalidZip64Locator" | MNoZip64Cde => T "MNoZip64Cde"
  | MInvalidCdSizeOrOffset => T "MInvalidCdSizeOrOffset" | MMultiDisk => T "MMultiDisk"
  | MNoZip64Room => T "MNoZip64Room" | MSeekCd => T "MSeekCd" | MInvalidCdHeader => T "MInvalidCdHeader"
  | MAesNoExtra => T "MAesNoExtra" | MHeaderTooLarge => T "MHeaderTooLarge" | MAesExtraLen => T "MAesExtraLen"
  | MAesVendor => T "MAesVendor" | MAesVendorVersion => T "MAesVendorVersion" | MAesStrength => T "MAesStrength"
  | MInvalidLocalHeader => T "MInvalidLocalHeader" | MMethodNotSupported => T "MMethodNotSupported"
  | MPasswordRequired => T "MPasswordRequired" | MEncryptedStream => T "MEncryptedStream"
  | MDataDescriptorStream => T "MDataDescriptorStream" | MInvalidFilePath => T "MInvalidFilePath"
  | MUnsupportedLevel => T "MUnsupportedLevel" | MAesWrite => T "MAesWrite"
  | MUnsupportedCompression => T "MUnsupportedCompression" | MAesTooShort => T "MAesTooShort"
  | MTooLong => T "MTooLong" | MOtherMsg => T "MOtherMsg"
  end.
Definition iomsg_obs (m : iomsg) : obs :=
  match m with
  | INone => T "INone" | IInvalidChecksum => T "IInvalidChecksum" | INoFileStarted => T "INoFileStarted"
  | IClosed => T "IClosed" | ILargeFile => T "ILargeFile" | INotExtra => T "INotExtra"
  | IExtraTooLong => T "IExtraTooLong" | IExtraIncomplete => T "IExtraIncomplete" | IExtraZip64 => T "IExtraZip64"
  | IExtraReserved => T "IExtraReserved" | IExtraSize => T "IExtraSize" | IAuthCode => T "IAuthCode"
  | IWriteZero => T "IWriteZero" | IFillBuffer => T "IFillBuffer" | IInjected => T "IInjected"
  | IAesTruncated => T "IAesTruncated"
  end.
Definition err_obs (e : err) : obs :=
  match e with
  | EIo k m => OL [T "Io"; iokind_obs k; iomsg_obs m]
  | EInvalid m => OL [T "Invalid"; msg_obs m]
  | EUnsupported m => OL [T "Unsupported"; msg_obs m]
  | ENotFound => OL [T "NotFound"]
  end.
Definition site_obs (p : panic_site) : obs :=
  match p with
  | PUnwrapPassword => T "PUnwrapPassword" | PMethodNotSupported => T "PMethodNotSupported"
  | PAesSub => T "PAesSub" | PFindContentAdd => T "PFindContentAdd" | PInvalidReaderState => T "PInvalidReaderState"
  | PGetPlain => T "PGetPlain" | PUnwrapWriter => T "PUnwrapWriter" | PFileEndSub => T "PFileEndSub"
  | PExtraLenAdd => T "PExtraLenAdd" | PCentralExtraLenAdd => T "PCentralExtraLenAdd"
  | PAlignAssert => T "PAlignAssert" | PLastUnwrap => T "PLastUnwrap" | PStreamDrain => T "PStreamDrain"
  | PDatepartSub => T "PDatepartSub" | PArith => T "PArith" | PUnreachable => T "PUnreachable"
  | POutOfFuel => T "POutOfFuel"
  end.
Definition res_obs {A} (f : A -> obs) (r : res A) : obs :=
  match r with
  | Ok a => OL [T "Ok"; f a]
  | Err e => OL [T "Err"; err_obs e]
  | Panic p => OL [T "PANIC"; site_obs p]
  end.
