(* Extract/Extract.v — extraction of the executable model (ExtrOcamlBasic only). *)
Require Extraction.
Require Import ExtrOcamlBasic.
From ZipV Require Import Extract.Obs Extract.Dispatch.
Extraction Language OCaml.
Extraction "zipmodel.ml" dispatch.
