(* Extract/Dispatch.v — op name + arguments -> observation.  Everything op-specific of the
   model side of the correspondence lives here (in Gallina); the OCaml driver is generic. *)
From Coq Require Import Strings.String.
From ZipV Require Import Base.Bytes Base.Outcome Gen.GenLib Gen.TypesGen Model.Dos Extract.Obs.
From ZipV Require Import Spec.PathSpec Model.Path Spec.Utf8 Model.Cp437 Gen.CompressionGen Model.Readers Model.Reader Spec.Crc32Spec Model.Stream Spec.Aes Spec.Sha1 Spec.Fs Model.Extract Model.Writer Model.WriterCalls Model.Clones.
From Coq Require Import ZArith.
Open Scope string_scope.
Open Scope N_scope.

Definition dt_obs (dt : DateTime) : obs :=
  OL [ON (DateTime_year dt); ON (DateTime_month dt); ON (DateTime_day dt);
      ON (DateTime_hour dt); ON (DateTime_minute dt); ON (DateTime_second dt);
      oopt ON (DateTime_datepart dt); ON (DateTime_timepart dt)].

Definition is_op (op : bytes) (s : string) : bool := bytes_eqb op (opname s).

Definition dispatch_dos (op : bytes) (args : list arg) : option obs :=
  if is_op op "dos_from" then
    match args with
    | [AN d; AN t] => Some (oopt dt_obs (DateTime_from_msdos d t))
    | _ => None end
  else if is_op op "dos_ctor" then
    match args with
    | [AN y; AN mo; AN d; AN h; AN mi; AN s] => Some (oopt dt_obs (DateTime_from_date_and_time y mo d h mi s))
    | _ => None end
  else if is_op op "dos_to_time" then
    match args with
    | [AN d; AN t] => Some (oopt (fun dt => oopt ON (to_time dt)) (DateTime_from_msdos d t))
    | _ => None end
  else if is_op op "dos_try_from" then
    match args with
    | [AN ts] => Some (oopt dt_obs (try_from_unix ts))
    | [AN ts; AN east; AN west] => Some (oopt dt_obs (try_from_unix (ts + east - west)))    (* local calendar fields *)
    | [AN ts; AN east; AN west; AN _] => Some (oopt dt_obs (try_from_unix (ts + east - west)))   (* + nanoseconds: dropped *)
    | _ => None end
  else None.

Definition comp_obs (c : comp) : obs :=
  match c with RootDir => T "R" | CurDir => T "C" | ParentDir => T "P" | Normal n => OL [T "N"; OB n] end.

Definition dispatch_path (op : bytes) (args : list arg) : option obs :=
  if is_op op "path" then
    match args with
    | [AB n] => Some (OL [oopt OB (enclosed_name n); OB (mangled_name n); OL (map comp_obs (components n))])
    | _ => None end
  else if is_op op "pathraw" then
    match args with
    | [AN flag; AB raw] =>
        let n := decode_text (negb (N.eqb flag 0%N)) raw in
        Some (OL [oopt OB (enclosed_name n); OB (mangled_name n); OL (map comp_obs (components n))])
    | _ => None end
  else None.

Definition dispatch_text (op : bytes) (args : list arg) : option obs :=
  if is_op op "text" then
    match args with
    | [AN flag; AB raw] => let f := N.odd flag in Some (OL [OB (decode_text f raw); OB raw])     (* other flag bits: >> 1 *)
    | [AN flag; AB raw; AB cm] => let f := N.odd flag in Some (OL [OB (decode_text f raw); OB raw; OB (decode_text f cm)])   (* own entry comment *)
    | _ => None end
  else if is_op op "wname" then
    match args with
    | [AB n] => Some (OL [obool (name_flag n); OB (decode_text (name_flag n) n); OB n])
    | _ => None end
  else None.

(* ---------- reader ops *)
Definition dummy_kdf (pw salt : bytes) (n : N) : bytes := [].
Definition dummy_blk (k b : bytes) : bytes := b.
Definition dummy_mac (k m : bytes) : bytes := [].

Definition time_obs (dt : DateTime) : obs :=
  OL [ON (DateTime_year dt); ON (DateTime_month dt); ON (DateTime_day dt);
      ON (DateTime_hour dt); ON (DateTime_minute dt); ON (DateTime_second dt)].

Definition ends_with_sep (n : bytes) : bool :=
  match rev n with b :: _ => Byte.eqb b x2f || Byte.eqb b x5c | [] => false end.

Definition meta_obs (f : zfd) (ds : N) : obs :=
  OL [OB (f_name f); OB (f_name_raw f); OB (f_comment f); ON (CompressionMethod_to_u16 (f_method f));
      ON (f_csize f); ON (f_usize f); ON (f_crc f); time_obs (f_time f); oopt ON (unix_mode f);
      OB (f_extra f); ON (f_header_start f); ON (f_central_start f); ON ds;
      ON (f_made_by f / 10); ON (f_made_by f mod 10); obool (ends_with_sep (f_name f));
      oopt OB (enclosed_name (f_name f)); OB (mangled_name (f_name f))].

(* read to the end with a fixed buffer size; on error report the bytes delivered before it *)
Fixpoint read_loop {S} (rd : reader S) (fuel : nat) (s : S) (n : N) (acc : bytes) : obs :=
  match fuel with
  | O => T "OUT-OF-FUEL"
  | Datatypes.S f =>
      (* n = 0 stands for: a zero-length read before every 3-byte read *)
      let pre := if n =? 0 then rd s 0 else Ok ([], s) in
      match pre with
      | Ok (_, s0) =>
          match rd s0 (if n =? 0 then 3 else n) with
          | Ok (bs, s') => if len bs =? 0 then OL [T "Ok"; OB (rev_append acc [])] else read_loop rd f s' n (rev_append bs acc)
          | Err e => OL [T "Err"; err_obs e; OB (rev_append acc [])]
          | Panic p => OL [T "PANIC"; site_obs p]
          end
      | Err e => OL [T "Err"; err_obs e; OB (rev_append acc [])]
      | Panic p => OL [T "PANIC"; site_obs p]
      end
  end.

Definition entry_obs_gen (skip_aes : bool) (kdf : bytes -> bytes -> N -> bytes) (blk mac : bytes -> bytes -> bytes)
    (data : bytes) (i : N) (pw : option bytes) (bufsize : N) : obs :=
  match open data with
  | Err e => OL [T "OpenErr"; err_obs e]
  | Panic p => OL [T "PANIC"; site_obs p]
  | Ok ar =>
      if skip_aes && match nth_error (ar_files ar) (N.to_nat i), pw with
         | Some f, Some _ => f_encrypted f && opt_is_some (f_aes f)
         | _, _ => false end
      then T "SKIP-AES" else
      match by_index_opt kdf ar i pw with
      | Err e => OL [T "Err"; err_obs e]
      | Panic p => OL [T "PANIC"; site_obs p]
      | Ok None => match pw with None => OL [T "Err"; err_obs (EUnsupported MPasswordRequired)] | Some _ => T "InvalidPassword" end
      | Ok (Some (f, ds, c)) =>
          let m := meta_obs f ds in
          if CompressionMethod_eqb (f_method f) CompressionMethod_Stored then
            OL [T "Ok"; m; read_loop (zipfile_read blk mac crc32) (Datatypes.S (length data)) (make_stored f c) bufsize []]
          else if method_supported (f_method f) then OL [T "Ok"; m; T "SKIP"]
          else OL [T "Ok"; m; OL [T "PANIC"; site_obs PMethodNotSupported]]
      end
  end.
Definition entry_obs := entry_obs_gen true dummy_kdf dummy_blk dummy_mac.

(* ---------- scheduled reads (C09) *)
Definition set_src_plan (t : take_st src) (p : list pev) : take_st src :=
  {| t_inner := {| s_data := s_data (t_inner t); s_plan := p |}; t_limit := t_limit t |}.
Definition crypto_set_plan (c : crypto) (p : list pev) : crypto :=
  match c with
  | CPlain s => CPlain (set_src_plan s p)
  | CZip z => CZip {| z_inner := set_src_plan (z_inner z) p; z_keys := z_keys z |}
  | CAes s v => CAes s v
  end.

Fixpoint cycle_list {A} (l : list A) (fuel : nat) : list A :=
  match fuel with O => [] | Datatypes.S f => l ++ cycle_list l f end.

(* caller schedule: cyclic list of buffer sizes (0 = zero-length read); ends at the first end of file on a
   non-empty buffer, then three more reads must return nothing *)
Fixpoint sched_loop {S} (rd : reader S) (fuel : nat) (s : S) (bufs all : list N) (acc : bytes) (lens : list N) : obs :=
  match fuel with
  | O => T "OUT-OF-FUEL"
  | Datatypes.S f =>
      let '(sz, rest) := match bufs with [] => (match all with [] => 64 | x :: _ => x end, match all with [] => [] | _ :: r => r end)
                                      | x :: r => (x, r) end in
      match rd s sz with
      | Ok (bs, s') =>
          if (len bs =? 0) && negb (sz =? 0) then
            match rd s' 5 with
            | Ok ([], s2) => match rd s2 5 with
                             | Ok ([], s3) => match rd s3 5 with
                                              | Ok ([], _) => OL [T "Ok"; OB acc; OL (map ON (rev lens))]
                                              | _ => OL [T "EOF-NOT-STICKY"; OB acc] end
                             | _ => OL [T "EOF-NOT-STICKY"; OB acc] end
            | _ => OL [T "EOF-NOT-STICKY"; OB acc]
            end
          else sched_loop rd f s' rest all (acc ++ bs) (len bs :: lens)
      | Err e => OL [T "Err"; err_obs e; OB acc; OL (map ON (rev lens))]
      | Panic p => OL [T "PANIC"; site_obs p]
      end
  end.

Definition entry_sched_obs (data : bytes) (i : N) (pw : option bytes) (plan bufs : bytes) : obs :=
  match open data with
  | Err e => OL [T "OpenErr"; err_obs e]
  | Panic p => OL [T "PANIC"; site_obs p]
  | Ok ar =>
      if match nth_error (ar_files ar) (N.to_nat i), pw with
         | Some f, Some _ => f_encrypted f && opt_is_some (f_aes f)
         | _, _ => false end
      then T "SKIP-AES" else
      match by_index_opt dummy_kdf ar i pw with
      | Err e => OL [T "Err"; err_obs e]
      | Panic p => OL [T "PANIC"; site_obs p]
      | Ok None => match pw with None => OL [T "Err"; err_obs (EUnsupported MPasswordRequired)] | Some _ => T "InvalidPassword" end
      | Ok (Some (f, ds, c)) =>
          let m := meta_obs f ds in
          let fuel := Datatypes.S (length data) in
          let pl := map (fun b => PChunk (b2n b)) plan in
          let c' := crypto_set_plan c pl in
          let bl := map b2n bufs in
          match c with
          | CAes _ _ => OL [T "Ok"; m; T "SKIP"]
          | _ =>
              if CompressionMethod_eqb (f_method f) CompressionMethod_Stored then
                OL [T "Ok"; m; sched_loop (zipfile_read dummy_blk dummy_mac crc32) (4 * fuel + 8) (make_stored f c') bl bl [] []]
              else if method_supported (f_method f) then OL [T "Ok"; m; T "SKIP"]
              else OL [T "Ok"; m; OL [T "PANIC"; site_obs PMethodNotSupported]]
          end
      end
  end.

(* ---------- streaming reader ops (C10) *)
Definition smeta_obs (f : zfd) : obs :=
  OL [OB (f_name f); OB (f_name_raw f); ON (CompressionMethod_to_u16 (f_method f)); ON (f_csize f); ON (f_usize f);
      ON (f_crc f); time_obs (f_time f); oopt ON (unix_mode f); OB (f_comment f)].

Definition sentry_reader (data : bytes) (e : sentry) : stored_st :=
  make_stored (se_file e) (CPlain {| t_inner := {| s_data := drop (se_data_start e) data; s_plan := [] |};
                                     t_limit := f_csize (se_file e) |}).

(* read k bytes (255 = everything, with the checksum verdict) from a streamed entry *)
Definition sentry_consume (data : bytes) (e : sentry) (k : N) : obs :=
  if negb (CompressionMethod_eqb (f_method (se_file e)) CompressionMethod_Stored) then T "SKIP" else
  if k =? 255 then read_loop (zipfile_read dummy_blk dummy_mac crc32) (Datatypes.S (length data)) (sentry_reader data e) 4096 []
  else match read_exact (zipfile_read dummy_blk dummy_mac crc32) (sentry_reader data e) (N.min k (f_csize (se_file e))) with
       | Ok (bs, _) => OL [T "Part"; OB bs]
       | Err er => OL [T "Err"; err_obs er]
       | Panic p => OL [T "PANIC"; site_obs p]
       end.

Fixpoint nth_cyc (l : list N) (i : nat) (d : N) : N :=
  match l with [] => d | _ => nth (Nat.modulo i (length l)) l d end.

Definition stream_consume_obs (data : bytes) (pattern : list N) : obs :=
  let '(es, r) := stream_entries (Datatypes.S (length data)) data 0 in
  let items := (fix go (l : list sentry) (i : nat) : list obs :=
                  match l with
                  | [] => []
                  | e :: r => OL [smeta_obs (se_file e); sentry_consume data e (nth_cyc pattern i 255)] :: go r (Datatypes.S i)
                  end) es 0%nat in
  OL (items ++ [match r with Ok _ => T "END" | Err er => OL [T "Err"; err_obs er] | Panic p => OL [T "PANIC"; site_obs p] end]).

Definition visit_obs (data : bytes) : obs :=
  let '(files, metas, r) := visit data in
  OL [OL (map (fun e => OB (f_name (se_file e))) files);
      OL (map (fun f => OL [OB (f_name f); oopt ON (unix_mode f); OB (f_comment f)]) metas); res_obs (fun _ => T "unit") r].

(* ---------- extraction (C07) *)
(* read an entry to the end: bytes delivered and how it ended *)
Fixpoint read_all_split {S} (rd : reader S) (fuel : nat) (s : S) (acc : bytes) : bytes * option err :=
  match fuel with
  | O => (rev_append acc [], None)
  | Datatypes.S f =>
      match rd s 8192 with
      | Ok (bs, s') => if len bs =? 0 then (rev_append acc [], None) else read_all_split rd f s' (rev_append bs acc)
      | Err e => (rev_append acc [], Some e)
      | Panic _ => (rev_append acc [], None)
      end
  end.

Definition xentry_of (data : bytes) (ar : archive) (i : N) (f : zfd) : xentry :=
  match by_index dummy_kdf ar i with
  | Err e => {| x_name := f_name f; x_open := Some e; x_data := []; x_read_err := None; x_mode := unix_mode f |}
  | Panic _ => {| x_name := f_name f; x_open := Some ENotFound; x_data := []; x_read_err := None; x_mode := unix_mode f |}
  | Ok (f', _, c) =>
      let '(d, e) := read_all_split (zipfile_read dummy_blk dummy_mac crc32) (Datatypes.S (length data)) (make_stored f' c) [] in
      {| x_name := f_name f; x_open := None; x_data := d; x_read_err := e; x_mode := unix_mode f |}
  end.

Fixpoint xentries (data : bytes) (ar : archive) (i : N) (fs : list zfd) : list xentry :=
  match fs with [] => [] | f :: r => xentry_of data ar i f :: xentries data ar (i + 1) r end.

Definition sxentry_of (data : bytes) (e : sentry) : xentry :=
  let '(d, er) := read_all_split (zipfile_read dummy_blk dummy_mac crc32) (Datatypes.S (length data)) (sentry_reader data e) [] in
  {| x_name := f_name (se_file e); x_open := None; x_data := d; x_read_err := er; x_mode := None |}.

Definition xres_obs (r : xres) : obs :=
  match r with
  | XOk => T "Ok"
  | XErr e => OL [T "Err"; err_obs e]
  | XFs _ => OL [T "Err"; T "Fs"]
  end.

Definition loc_path (l : loc) : bytes := join x2f l.

Fixpoint insert_node (x : loc * node) (l : list (loc * node)) : list (loc * node) :=
  match l with
  | [] => [x]
  | y :: r => if bytes_ltb (loc_path (fst x)) (loc_path (fst y)) then x :: l else y :: insert_node x r
  end.

Definition node_obs (x : loc * node) : obs :=
  match snd x with
  | NDir m => OL [OB (loc_path (fst x)); T "D"; ON m]
  | NFile c m => OL [OB (loc_path (fst x)); T "F"; ON m; OB c]
  end.

Definition tree_obs (t : fs) : obs := OL (map node_obs (fold_right insert_node [] t)).

Definition sandbox0 : fs :=
  [([[x74]], NDir 493); ([[x63; x61; x6e; x61; x72; x79]], NDir 493);
   ([[x63; x61; x6e; x61; x72; x79]; [x66]], NFile [x63; x61; x6e; x61; x72; x79] 420)].
Definition target : loc := [[x74]].

Definition extract_obs (data : bytes) (mode : N) : obs :=
  if mode =? 0 then
    match open data with
    | Err e => OL [OL [T "OpenErr"; err_obs e]; tree_obs sandbox0]
    | Panic p => OL [OL [T "PANIC"; site_obs p]; tree_obs sandbox0]
    | Ok ar =>
        let '((t, _), r) := extract 18 target (sandbox0, []) (xentries data ar 0 (ar_files ar)) in
        OL [xres_obs r; tree_obs t]
    end
  else
    let fuel := Datatypes.S (length data) in
    let '(es, r) := stream_entries fuel data 0 in
    let '(st1, r1) := sextract_files 18 target (sandbox0, []) (map (sxentry_of data) es) in
    match r1 with
    | XOk =>
        match r with
        | Err e => OL [OL [T "Err"; err_obs e]; tree_obs (fst st1)]
        | Panic p => OL [OL [T "PANIC"; site_obs p]; tree_obs (fst st1)]
        | Ok p =>
            (* metadata phase: the first central record without its signature, then the rest *)
            match parse_central_inner data p with
            | Err e => OL [OL [T "Err"; err_obs e]; tree_obs (fst st1)]
            | Panic q => OL [OL [T "PANIC"; site_obs q]; tree_obs (fst st1)]
            | Ok (f, p') =>
                let '(st2, r2) := sextract_meta target st1 (f_name f) (unix_mode f) in
                match r2 with
                | XOk =>
                    (fix metas (fuel : nat) (pos : N) (st : fs * log) : obs :=
                       match fuel with
                       | O => OL [T "OUT-OF-FUEL"]
                       | Datatypes.S fu =>
                           match u32_at data pos with
                           | Ok sig =>
                               if negb (sig =? Gen.SpecGen.CENTRAL_DIRECTORY_HEADER_SIGNATURE) then OL [T "Ok"; tree_obs (fst st)]
                               else match parse_central_inner data (pos + 4) with
                                    | Ok (g, q) =>
                                        let '(st', rr) := sextract_meta target st (f_name g) (unix_mode g) in
                                        match rr with
                                        | XOk => metas fu q st'
                                        | bad => OL [xres_obs bad; tree_obs (fst st')]
                                        end
                                    | Err e => OL [OL [T "Err"; err_obs e]; tree_obs (fst st)]
                                    | Panic q => OL [OL [T "PANIC"; site_obs q]; tree_obs (fst st)]
                                    end
                           | Err e => OL [OL [T "Err"; err_obs e]; tree_obs (fst st)]
                           | Panic q => OL [OL [T "PANIC"; site_obs q]; tree_obs (fst st)]
                           end
                       end) fuel p' st2
                | bad => OL [xres_obs bad; tree_obs (fst st2)]
                end
            end
        end
    | bad => OL [xres_obs bad; tree_obs (fst st1)]
    end.

(* ---------- writer programs (C01 C02 C08 C11 C12 C13 C14 C17) *)
Inductive wop :=
| OStartFile (name : bytes) (o : wopts)
| OWrite (data : bytes)
| OStartExtra (name : bytes) (o : wopts)
| OStartAligned (name : bytes) (o : wopts) (align : N)
| OEndLocal | OEndExtra
| OAddDir (name : bytes) (o : wopts)
| OSymlink (name target : bytes) (o : wopts)
| OComment (c : bytes)
| ORawCopy (src : bytes) (idx : N) (name : option bytes)
| OFinish.

Definition mk_opts (method lvlflag lvlabs date time permflag perm large pwflag : N) (pw : bytes) : wopts :=
  {| o_method := CompressionMethod_from_u16 method;
     o_level := if lvlflag =? 0 then None else Some (if lvlflag =? 1 then Z.of_N lvlabs else (- Z.of_N lvlabs)%Z);
     o_time := match DateTime_from_msdos date time with Some dt => dt | None => DateTime_default end;
     o_perm := if permflag =? 0 then None else Some perm;
     o_large := negb (large =? 0);
     o_encrypt := if pwflag =? 0 then None else Some pw |}.

(* flat argument list -> (sink plan, append base, oracle table, program) *)
Record wprog := { wp_plan : list wev; wp_base : option bytes; wp_enc : list (N * Z * bytes * bytes); wp_ops : list wop }.

Fixpoint parse_wprog (fuel : nat) (args : list arg) (acc : wprog) : option wprog :=
  match fuel with O => None | Datatypes.S f =>
  match args with
  | [] => Some {| wp_plan := wp_plan acc; wp_base := wp_base acc; wp_enc := wp_enc acc; wp_ops := rev (wp_ops acc) |}
  | AN code :: r =>
      let push op rest := parse_wprog f rest {| wp_plan := wp_plan acc; wp_base := wp_base acc; wp_enc := wp_enc acc; wp_ops := op :: wp_ops acc |} in
      if (code =? 1) || (code =? 3) || (code =? 7) then
        match r with
        | AB name :: AN m :: AN lf :: AN la :: AN d :: AN t :: AN pf :: AN pm :: AN lg :: AN wf :: AB pw :: rest =>
            let o := mk_opts m lf la d t pf pm lg wf pw in
            push (if code =? 1 then OStartFile name o else if code =? 3 then OStartExtra name o else OAddDir name o) rest
        | _ => None end
      else if code =? 4 then
        match r with
        | AB name :: AN m :: AN lf :: AN la :: AN d :: AN t :: AN pf :: AN pm :: AN lg :: AN wf :: AB pw :: AN al :: rest =>
            push (OStartAligned name (mk_opts m lf la d t pf pm lg wf pw) al) rest
        | _ => None end
      else if code =? 8 then
        match r with
        | AB name :: AN m :: AN lf :: AN la :: AN d :: AN t :: AN pf :: AN pm :: AN lg :: AN wf :: AB pw :: AB target :: rest =>
            push (OSymlink name target (mk_opts m lf la d t pf pm lg wf pw)) rest
        | _ => None end
      else if code =? 2 then match r with AB data :: rest => push (OWrite data) rest | _ => None end
      else if code =? 5 then push OEndLocal r
      else if code =? 6 then push OEndExtra r
      else if code =? 9 then match r with AB c :: rest => push (OComment c) rest | _ => None end
      else if code =? 10 then
        match r with
        | AB src :: AN idx :: AN rn :: AB nm :: rest => push (ORawCopy src idx (if rn =? 0 then None else Some nm)) rest
        | _ => None end
      else if code =? 11 then push OFinish r
      else if code =? 13 then
        match r with
        | AN m :: AN lf :: AN la :: AB content :: AB payload :: rest =>
            let l := if lf =? 1 then Z.of_N la else (- Z.of_N la)%Z in
            parse_wprog f rest {| wp_plan := wp_plan acc; wp_base := wp_base acc; wp_enc := (m, l, content, payload) :: wp_enc acc; wp_ops := wp_ops acc |}
        | _ => None end
      else if code =? 14 then
        match r with
        | AB base :: rest => parse_wprog f rest {| wp_plan := wp_plan acc; wp_base := Some base; wp_enc := wp_enc acc; wp_ops := wp_ops acc |}
        | _ => None end
      else if code =? 15 then
        match r with
        | AB plan :: rest =>
            parse_wprog f rest {| wp_plan := map (fun b => if b2n b =? 0 then WFail else WShort (if b2n b =? 255 then 4294967295 else b2n b)) plan;
                                  wp_base := wp_base acc; wp_enc := wp_enc acc; wp_ops := wp_ops acc |}
        | _ => None end
      else None
  | _ => None
  end end.

(* the compressor oracle: payloads observed from the implementation, keyed by (method, content) *)
Fixpoint enc_lookup (tbl : list (N * Z * bytes * bytes)) (m : N) (l : Z) (content : bytes) : bytes :=
  match tbl with
  | [] => []
  | (m', l', c, p) :: r => if (m' =? m) && Z.eqb l' l && bytes_eqb c content then p else enc_lookup r m l content
  end.
Definition enc_of (tbl : list (N * Z * bytes * bytes)) (m : CompressionMethod) (lvl : Z) (content : bytes) : bytes :=
  enc_lookup tbl (CompressionMethod_to_u16 m) lvl content.

Definition unit_res_obs (r : res unit) : obs := res_obs (fun _ => T "unit") r.
Definition n_res_obs (r : res N) : obs := res_obs ON r.

Definition wresult_obs (r : wresult) : obs :=
  match r with
  | RUnit r => unit_res_obs r
  | RNum r => n_res_obs r
  | RBytes r => res_obs OB r
  end.

(* every writer call goes through WriterCalls.do_call; a raw copy first resolves its source with the reader model *)
Definition run_wop (tbl : list (N * Z * bytes * bytes)) (s : wstate) (op : wop) : wstate * obs :=
  let enc := enc_of tbl in
  let call c := let '(s', r) := do_call enc crc32 s c in (s', wresult_obs r) in
  match op with
  | OStartFile n o => call (KStartFile n o)
  | OWrite d => call (KWrite d)
  | OStartExtra n o => call (KStartExtra n o)
  | OStartAligned n o a => call (KStartAligned n o a)
  | OEndLocal => call KEndLocal
  | OEndExtra => call KEndExtra
  | OAddDir n o => call (KAddDir n o)
  | OSymlink n t o => call (KSymlink n t o)
  | OComment c => call (KComment c)
  | ORawCopy src idx nm =>
      match open src with
      | Ok ar =>
          match nth_error (ar_files ar) (N.to_nat idx) with
          | Some f =>
              match find_content src f with
              | Ok (ds, _) =>
                  call (KRawCopy f (take (f_csize f) (drop ds src)) (match nm with Some n => n | None => f_name f end))
              | Err e => (s, OL [T "SrcErr"; err_obs e])
              | Panic p => (s, OL [T "PANIC"; site_obs p])
              end
          | None => (s, OL [T "SrcErr"; err_obs ENotFound])
          end
      | Err e => (s, OL [T "SrcErr"; err_obs e])
      | Panic p => (s, OL [T "PANIC"; site_obs p])
      end
  | OFinish => call KFinish
  end.

Fixpoint run_wops (tbl : list (N * Z * bytes * bytes)) (s : wstate) (ops : list wop) (acc : list obs) : wstate * list obs :=
  match ops with
  | [] => (s, rev_append acc [])
  | op :: r => let '(s', o) := run_wop tbl s op in
               match o with
               | OL (OT _ :: _) => run_wops tbl s' r (o :: acc)
               | _ => run_wops tbl s' r (o :: acc)
               end
  end.

Definition wprog_obs (args : list arg) : obs :=
  match parse_wprog (Datatypes.S (length args)) args {| wp_plan := []; wp_base := None; wp_enc := []; wp_ops := [] |} with
  | None => T "BADPROG"
  | Some p =>
      let init := match wp_base p with
                  | None => Ok (new_writer (wp_plan p))
                  | Some b => new_append b (wp_plan p)
                  end in
      match init with
      | Err e => OL [T "AppendErr"; err_obs e]
      | Panic q => OL [T "PANIC"; site_obs q]
      | Ok s0 =>
          let '(s1, outs) := run_wops (wp_enc p) s0 (wp_ops p) [] in
          (* the writer is dropped at the end: finalises unless closed *)
          let finished := existsb (fun o => match o with OFinish => true | _ => false end) (wp_ops p) in
          let '(s2, dr) := do_call (enc_of (wp_enc p)) crc32 s1 KDrop in
          OL [OL outs; wresult_obs dr; match sink_bytes s2 with Some b => OB b | None => T "SKIP" end]
      end
  end.

Fixpoint insert_sorted (x : bytes) (l : list bytes) : list bytes :=
  match l with
  | [] => [x]
  | y :: r => if bytes_eqb x y then l else if bytes_ltb x y then x :: l else y :: insert_sorted x r
  end.

Definition dispatch_reader (op : bytes) (args : list arg) : option obs :=
  if is_op op "open" then
    match args with
    | [AB data] => Some (res_obs (fun ar => OL [ON (ar_offset ar); OB (ar_comment ar); ON (N.of_nat (length (ar_files ar)));
                                              OL (map OB (fold_right insert_sorted [] (map f_name (ar_files ar))))]) (open data))
    | _ => None end
  else if is_op op "entry" then
    match args with
    | [AB data; AN i; AN haspw; AB pw; AN bufsize] => Some (entry_obs data i (if N.eqb haspw 0%N then None else Some pw) bufsize)
    | _ => None end
  else if is_op op "aes_entry" then
    match args with
    | [AB data; AN i; AB pw; AB dk; AN bufsize] =>
        Some (entry_obs_gen false (fun _ _ _ => dk) aes_encrypt hmac_sha1 data i (Some pw) bufsize)
    | _ => None end
  else if is_op op "kdf" then
    match args with
    | [AB pw; AB salt; AN c; AN n] => Some (OB (pbkdf2_sha1 pw salt (N.to_nat c) n))
    | _ => None end
  else if is_op op "entry_sched" then
    match args with
    | [AB data; AN i; AN haspw; AB pw; AB plan; AB bufs; AN mode] =>
        if N.eqb mode 0%N then Some (entry_sched_obs data i (if N.eqb haspw 0%N then None else Some pw) plan bufs)
        else Some (T "IMPL-ONLY")
    | _ => None end
  else if is_op op "stream_consume" then
    match args with
    | [AB data; AB pattern] => Some (stream_consume_obs data (map b2n pattern))
    | _ => None end
  else if is_op op "visit" then
    match args with
    | [AB data] => Some (visit_obs data)
    | _ => None end
  else if is_op op "extract" then
    match args with
    | [AB data; AN mode] => Some (extract_obs data mode)
    | _ => None end
  else if is_op op "clones" then
    match args with
    | AB data :: AN haspw :: AB pw :: script =>
        match open data with
        | Err e => Some (OL [T "OpenErr"; err_obs e])
        | Panic p => Some (OL [T "PANIC"; site_obs p])
        | Ok ar =>
            let fix parse (fuel : nat) (l : list arg) : option (list (nat * cop)) :=
              match fuel with O => None | Datatypes.S fu =>
              match l with
              | [] => Some []
              | AN h :: AN o :: AN x :: r =>
                  match parse fu r with
                  | None => None
                  | Some t => Some ((N.to_nat h, if o =? 0 then COpen x (if haspw =? 0 then None else Some pw)
                                                 else if o =? 1 then CRead x else CClose) :: t)
                  end
              | _ => None
              end end in
            match parse (Datatypes.S (length script)) script with
            | None => None
            | Some sched =>
                Some (OL (map (fun ko =>
                   match snd ko with
                   | OOpened f ds => OL [T "Ok"; OB (f_name f); ON (f_usize f); ON (f_crc f); ON ds]
                   | OBadPassword => T "InvalidPassword"
                   | OFail e => OL [T "Err"; err_obs e]
                   | OPanic p => OL [T "PANIC"; site_obs p]
                   | OData b => OL [T "Ok"; OB b]
                   | OOpaque => T "SKIP"
                   | ONoEntry => T "NOENTRY"
                   | OClosed => T "closed"
                   end) (run_sched dummy_kdf dummy_blk dummy_mac crc32 ar [] [] sched)))
            end
        end
    | _ => None end
  else if is_op op "wprog" then Some (wprog_obs args)
  (* C08: the header writers on arbitrary 64-bit values.
     c08hdr name method crc csize usize header_start large perm -> [local header, central header]
     c08end n central_start central_size comment                -> end records *)
  else if is_op op "c08hdr" then
    match args with
    | [AB name; AN m; AN c; AN cs; AN us; AN hs; AN large; AN perm] =>
        let f := {| w_system := 3; w_made_by := Gen.TypesGen.DEFAULT_VERSION; w_encrypted := false;
                    w_method := CompressionMethod_from_u16 m; w_level := None; w_time := DateTime_default;
                    w_crc := c; w_csize := cs; w_usize := us; w_name := name; w_extra := [];
                    w_header_start := hs; w_data_start := 0; w_ext_attr := (perm * 65536) mod 2 ^ 32; w_large := negb (large =? 0) |} in
        Some (OL [res_obs (fun cs => OB (concat cs)) (local_header_chunks f); res_obs (fun cs => OB (concat cs)) (central_header_chunks f)])
    | _ => None end
  else if is_op op "c08end" then
    match args with
    | [AN n; AN cstart; AN csize; AB comment] => Some (OB (concat (end_records n cstart csize comment)))
    | _ => None end
  else if is_op op "byname" then
    match args with
    | [AB data; AB name] =>
        Some (match open data with
              | Ok ar => match index_of_name ar name with
                         | None => OL [T "Err"; err_obs ENotFound]
                         | Some i => match by_index dummy_kdf ar i with
                                     | Ok (f, _, _) => OL [T "Ok"; ON (f_central_start f)]
                                     | Err e => OL [T "Err"; err_obs e]
                                     | Panic p => OL [T "PANIC"; site_obs p]
                                     end
                         end
              | Err e => OL [T "OpenErr"; err_obs e]
              | Panic p => OL [T "PANIC"; site_obs p]
              end)
    | _ => None end
  else None.

Definition first_some (l : list (option obs)) : obs :=
  match flat_map (fun o => match o with Some x => [x] | None => [] end) l with
  | x :: _ => x | [] => T "BADOP" end.

Definition dispatch (op : bytes) (args : list arg) : obs :=
  first_some [dispatch_dos op args; dispatch_path op args; dispatch_text op args; dispatch_reader op args].
