(* Extract/Dispatch.v — op name + arguments -> observation.  Everything op-specific of the
   model side of the correspondence lives here (in Gallina); the OCaml driver is generic. *)
From Coq Require Import Strings.String.
From ZipV Require Import Base.Bytes Base.Outcome Gen.GenLib Gen.TypesGen Model.Dos Extract.Obs.
From ZipV Require Import Spec.PathSpec Model.Path Spec.Utf8 Model.Cp437.
Open Scope N_scope.
Open Scope string_scope.

Definition dt_obs (dt : DateTime) : obs :=
  OL [ON (DateTime_year dt); ON (DateTime_month dt); ON (DateTime_day dt);
      ON (DateTime_hour dt); ON (DateTime_minute dt); ON (DateTime_second dt);
      oopt ON (DateTime_datepart dt); ON (DateTime_timepart dt)].

Definition is_op (op : bytes) (s : string) : bool := bytes_eqb op (opname s).

Definition dispatch_dos (op : bytes) (args : list arg) : option obs :=
  if is_op op "dos_from" then
    match args with
    | [AN d; AN t] => Some (oopt dt_obs (DateTime_from_msdos d t))
    | _ => None end
  else if is_op op "dos_ctor" then
    match args with
    | [AN y; AN mo; AN d; AN h; AN mi; AN s] => Some (oopt dt_obs (DateTime_from_date_and_time y mo d h mi s))
    | _ => None end
  else if is_op op "dos_to_time" then
    match args with
    | [AN d; AN t] => Some (oopt (fun dt => oopt ON (to_time dt)) (DateTime_from_msdos d t))
    | _ => None end
  else if is_op op "dos_try_from" then
    match args with
    | [AN ts] => Some (oopt dt_obs (try_from_unix ts))
    | _ => None end
  else None.

Definition comp_obs (c : comp) : obs :=
  match c with RootDir => T "R" | CurDir => T "C" | ParentDir => T "P" | Normal n => OL [T "N"; OB n] end.

Definition dispatch_path (op : bytes) (args : list arg) : option obs :=
  if is_op op "path" then
    match args with
    | [AB n] => Some (OL [oopt OB (enclosed_name n); OB (mangled_name n); OL (map comp_obs (components n))])
    | _ => None end
  else None.

Definition dispatch_text (op : bytes) (args : list arg) : option obs :=
  if is_op op "text" then
    match args with
    | [AN flag; AB raw] => let f := negb (N.eqb flag 0%N) in Some (OL [OB (decode_text f raw); OB raw])
    | _ => None end
  else if is_op op "wname" then
    match args with
    | [AB n] => Some (OL [obool (name_flag n); OB (decode_text (name_flag n) n); OB n])
    | _ => None end
  else None.

Definition first_some (l : list (option obs)) : obs :=
  match flat_map (fun o => match o with Some x => [x] | None => [] end) l with
  | x :: _ => x | [] => T "BADOP" end.

Definition dispatch (op : bytes) (args : list arg) : obs :=
  first_some [dispatch_dos op args; dispatch_path op args; dispatch_text op args].
