"""wprog — writer programs: the flat line encoding shared by harness/src/ops_writer.rs and
coq/Extract/Dispatch.v (parse_wprog), and the two-pass protocol that supplies the compressor oracle:
pass 1 runs the implementation, the strict validator slices every entry's payload out of the produced
archive, pass 2 (both sides) carries (method, content, payload) triples for the model's [enc]."""
import re
import strictzip
from zvlib import run_lines, _parse_obs

def hexs(b):
    return "x" + b.hex()

class Opts:
    def __init__(self, method=0, level=None, date=0x4d71, time=0x54cf, perm=None, large=False, pw=None):
        self.method, self.level, self.date, self.time, self.perm, self.large, self.pw = method, level, date, time, perm, large, pw
    def enc(self):
        lf, la = (0, 0) if self.level is None else ((1, self.level) if self.level >= 0 else (2, -self.level))
        return "%d %d %d %d %d %d %d %d %d %s" % (self.method, lf, la, self.date, self.time, 0 if self.perm is None else 1,
                                                  self.perm or 0, 1 if self.large else 0, 0 if self.pw is None else 1, hexs(self.pw or b""))

# ops are tuples: ("file", name, Opts) ("write", data) ("extra", name, Opts) ("aligned", name, Opts, align) ("endlocal",)
# ("endextra",) ("dir", name, Opts) ("symlink", name, target, Opts) ("comment", c) ("rawcopy", src, idx, newname|None) ("finish",)
def enc_op(op):
    k = op[0]
    if k == "file":
        return "1 %s %s" % (hexs(op[1]), op[2].enc())
    if k == "write":
        return "2 " + hexs(op[1])
    if k == "extra":
        return "3 %s %s" % (hexs(op[1]), op[2].enc())
    if k == "aligned":
        return "4 %s %s %d" % (hexs(op[1]), op[2].enc(), op[3])
    if k == "endlocal":
        return "5"
    if k == "endextra":
        return "6"
    if k == "dir":
        return "7 %s %s" % (hexs(op[1]), op[2].enc())
    if k == "symlink":
        return "8 %s %s %s" % (hexs(op[1]), op[3].enc(), hexs(op[2]))
    if k == "comment":
        return "9 " + hexs(op[1])
    if k == "rawcopy":
        return "10 %s %d %d %s" % (hexs(op[1]), op[2], 0 if op[3] is None else 1, hexs(op[3] or b""))
    if k == "finish":
        return "11"
    raise ValueError(k)

def line(ops, base=None, plan=None, table=()):
    parts = ["wprog"]
    if plan is not None:
        parts.append("15 " + hexs(plan))
    if base is not None:
        parts.append("14 " + hexs(base))
    for m, l, c, p in table:
        parts.append("13 %d %d %d %s %s" % (m, 1 if l >= 0 else 2, abs(l), hexs(c), hexs(p)))
    parts += [enc_op(o) for o in ops]
    return " ".join(parts)

def final_bytes(out):
    """archive bytes of a run: the result of the last successful finish, else the sink after drop"""
    p = _parse_obs(out or "")
    if not p or not isinstance(p[0], list) or len(p[0]) != 3:
        return None, None
    calls, dr, fin = p[0]
    data = None
    for c in calls:
        if isinstance(c, list) and len(c) == 2 and c[0] == "Ok" and isinstance(c[1], str) and c[1].startswith("x") and len(c[1]) > 8:
            data = bytes.fromhex(c[1][1:])
    if data is None and isinstance(fin, str) and fin.startswith("x"):
        data = bytes.fromhex(fin[1:])
    return calls, data

def contents_of(ops):
    """(method, content) of every entry a program creates with a compressing method, in order"""
    out, cur = [], None
    to_extra = False
    for op in ops:
        k = op[0]
        if k in ("file", "extra", "aligned"):
            if cur is not None:
                out.append(cur)
            cur = [op[2].method, b""]
            to_extra = k == "extra"
        elif k in ("dir", "symlink", "rawcopy"):
            if cur is not None:
                out.append(cur)
            cur = None
            to_extra = False
        elif k == "endextra":
            to_extra = False
        elif k == "endlocal":
            to_extra = True
        elif k == "write" and cur is not None and not to_extra:
            cur[1] += op[1]
    if cur is not None:
        out.append(cur)
    return out

def scan_locals(data):
    """lenient front-to-back scan of local headers (for sinks that never got a central directory)"""
    import struct, zlib, bz2
    out, p = [], 0
    while data[p:p + 4] == b"PK\x03\x04" and p + 30 <= len(data):
        vneed, flags, method, t, d, crc, cs, us, nl, el = struct.unpack("<HHHHHIIIHH", data[p + 4:p + 30])
        extra = data[p + 30 + nl:p + 30 + nl + el]
        if cs == 0xffffffff and extra[:4] == b"\x01\x00\x10\x00":
            us, cs = struct.unpack("<QQ", extra[4:20])
        st = p + 30 + nl + el
        payload = data[st:st + cs]
        content = None
        try:
            content = payload if method == 0 else zlib.decompress(payload, -15) if method == 8 else bz2.decompress(payload) if method == 12 else None
        except Exception:
            content = None
        out.append(dict(method=method, flags=flags, crc=crc, usize=us, payload=payload, content=content))
        p = st + cs
    return out

def eff_level(method, level):
    if level is not None:
        return level
    return {8: 6, 12: 6, 93: 3}.get(method, 0)

def with_tables(exe, progs):
    """progs: list of dict(ops=..., base=..., plan=...).  Returns (request lines carrying the compressor oracle,
    pass-1 outputs).  The oracle values come from the codec libraries called directly by the harness with the
    parameters the crate passes them (method, effective level) and the content fed in the same pieces as the
    program's write calls (a streaming encoder's output may depend on where its input was split)."""
    first = [line(p["ops"], p.get("base"), p.get("plan")) for p in progs]
    outs = run_lines(exe, first)
    want = {}
    per_prog = []
    for p, o in zip(progs, outs):
        calls, _ = final_bytes(o)
        cands = []
        for m, lvl, c, chunks in all_prefix_contents(p["ops"], calls):
            if m in (8, 12, 93) and level_valid(m, lvl):
                key = (m, eff_level(m, lvl), c)
                cands.append(key)
                want.setdefault(key, chunks)
        per_prog.append(cands)
    keys = list(want)
    reqs = ["compress %d %d %d %s" % (m, 1 if l >= 0 else 2, abs(l), " ".join(hexs(ch) for ch in (want[(m, l, c)] or [b""])))
            for m, l, c in keys]
    res = run_lines(exe, reqs) if reqs else []
    for k, r in zip(keys, res):
        want[k] = bytes.fromhex(r[1:]) if r and r.startswith("x") else b""
    lines = []
    for p, cands in zip(progs, per_prog):
        table, seen = [], set()
        for m, l, c in cands:
            if (m, l, c) not in seen:
                seen.add((m, l, c))
                table.append((m, l, c, want[(m, l, c)]))
        lines.append(line(p["ops"], p.get("base"), p.get("plan"), table))
    return lines, outs

def level_valid(m, lvl):
    if lvl is None:
        return True
    return (m == 8 and 0 <= lvl <= 9) or (m == 12 and 1 <= lvl <= 9) or (m == 93 and -7 <= lvl <= 22)

def all_prefix_contents(ops, calls=None):
    """(method, level, content, chunks) candidates for every entry: the successful content writes since it was
    started (chunks = the non-empty pieces in which they arrived).  Mode toggles (extra data) only count when the
    call succeeded (known from pass 1)."""
    out = []
    cur = None
    to_extra = False
    for i, op in enumerate(ops):
        ok = True
        if calls is not None and i < len(calls):
            c = calls[i]
            ok = isinstance(c, list) and len(c) > 0 and c[0] == "Ok"
        k = op[0]
        if k in ("file", "extra", "aligned"):
            if ok or k != "file":
                cur = [op[2].method, op[2].level, b"", []]
                to_extra = (k == "extra") and ok
                out.append((cur[0], cur[1], b"", []))
            if k == "file" and not ok:
                # the entry may exist although the call failed after writing its header
                out.append((op[2].method, op[2].level, b"", []))
        elif k in ("dir", "symlink", "rawcopy", "finish"):
            if ok:
                cur = None
        elif k == "endextra":
            if ok:
                to_extra = False
        elif k == "endlocal":
            if ok:
                to_extra = True
        elif k == "write" and cur is not None and not to_extra and ok:
            cur[2] += op[1]
            if op[1]:
                cur[3] = cur[3] + [op[1]]
            out.append((cur[0], cur[1], cur[2], cur[3]))
    return out
