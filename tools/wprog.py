"""wprog — writer programs: the flat line encoding shared by harness/src/ops_writer.rs and
coq/Extract/Dispatch.v (parse_wprog), and the two-pass protocol that supplies the compressor oracle:
pass 1 runs the implementation, the strict validator slices every entry's payload out of the produced
archive, pass 2 (both sides) carries (method, content, payload) triples for the model's [enc]."""
import re
import strictzip
from zvlib import run_lines, _parse_obs

def hexs(b):
    return "x" + b.hex()

class Opts:
    def __init__(self, method=0, level=None, date=0x4d71, time=0x54cf, perm=None, large=False, pw=None):
        self.method, self.level, self.date, self.time, self.perm, self.large, self.pw = method, level, date, time, perm, large, pw
    def enc(self):
        lf, la = (0, 0) if self.level is None else ((1, self.level) if self.level >= 0 else (2, -self.level))
        return "%d %d %d %d %d %d %d %d %d %s" % (self.method, lf, la, self.date, self.time, 0 if self.perm is None else 1,
                                                  self.perm or 0, 1 if self.large else 0, 0 if self.pw is None else 1, hexs(self.pw or b""))

# ops are tuples: ("file", name, Opts) ("write", data) ("extra", name, Opts) ("aligned", name, Opts, align) ("endlocal",)
# ("endextra",) ("dir", name, Opts) ("symlink", name, target, Opts) ("comment", c) ("rawcopy", src, idx, newname|None) ("finish",)
def enc_op(op):
    k = op[0]
    if k == "file":
        return "1 %s %s" % (hexs(op[1]), op[2].enc())
    if k == "write":
        return "2 " + hexs(op[1])
    if k == "extra":
        return "3 %s %s" % (hexs(op[1]), op[2].enc())
    if k == "aligned":
        return "4 %s %s %d" % (hexs(op[1]), op[2].enc(), op[3])
    if k == "endlocal":
        return "5"
    if k == "endextra":
        return "6"
    if k == "dir":
        return "7 %s %s" % (hexs(op[1]), op[2].enc())
    if k == "symlink":
        return "8 %s %s %s" % (hexs(op[1]), op[3].enc(), hexs(op[2]))
    if k == "comment":
        return "9 " + hexs(op[1])
    if k == "rawcopy":
        return "10 %s %d %d %s" % (hexs(op[1]), op[2], 0 if op[3] is None else 1, hexs(op[3] or b""))
    if k == "finish":
        return "11"
    raise ValueError(k)

def line(ops, base=None, plan=None, table=()):
    parts = ["wprog"]
    if plan is not None:
        parts.append("15 " + hexs(plan))
    if base is not None:
        parts.append("14 " + hexs(base))
    for m, c, p in table:
        parts.append("13 %d %s %s" % (m, hexs(c), hexs(p)))
    parts += [enc_op(o) for o in ops]
    return " ".join(parts)

def final_bytes(out):
    """archive bytes of a run: the result of the last successful finish, else the sink after drop"""
    p = _parse_obs(out or "")
    if not p or not isinstance(p[0], list) or len(p[0]) != 3:
        return None, None
    calls, dr, fin = p[0]
    data = None
    for c in calls:
        if isinstance(c, list) and len(c) == 2 and c[0] == "Ok" and isinstance(c[1], str) and c[1].startswith("x") and len(c[1]) > 8:
            data = bytes.fromhex(c[1][1:])
    if data is None and isinstance(fin, str) and fin.startswith("x"):
        data = bytes.fromhex(fin[1:])
    return calls, data

def contents_of(ops):
    """(method, content) of every entry a program creates with a compressing method, in order"""
    out, cur = [], None
    to_extra = False
    for op in ops:
        k = op[0]
        if k in ("file", "extra", "aligned"):
            if cur is not None:
                out.append(cur)
            cur = [op[2].method, b""]
            to_extra = k == "extra"
        elif k in ("dir", "symlink", "rawcopy"):
            if cur is not None:
                out.append(cur)
            cur = None
            to_extra = False
        elif k == "endextra":
            to_extra = False
        elif k == "endlocal":
            to_extra = True
        elif k == "write" and cur is not None and not to_extra:
            cur[1] += op[1]
    if cur is not None:
        out.append(cur)
    return out

def with_tables(exe, progs):
    """progs: list of dict(ops=..., base=..., plan=...).  Returns the request lines carrying the compressor oracle."""
    first = [line(p["ops"], p.get("base"), p.get("plan")) for p in progs]
    outs = run_lines(exe, first)
    lines = []
    for p, o in zip(progs, outs):
        table = []
        if any(op[0] in ("file", "extra", "aligned") and op[2].method != 0 for op in p["ops"]):
            calls, data = final_bytes(o)
            if data:
                listing, _ = strictzip.validate(data)
                ents = listing["entries"] if isinstance(listing, dict) else []
                seen = set()
                # every (method, candidate content) pair: the content of an entry is the concatenation of a prefix of the
                # successful writes; offer all prefixes so that failed writes do not matter
                pws = [op[2].pw for op in p["ops"] if op[0] in ("file", "extra", "aligned") and op[2].pw is not None]
                for e in ents:
                    if e["method"] in (8, 12, 93) and (e["flags"] & 1) and pws:
                        import genzip
                        for pw in pws:
                            plain = genzip.ZipCrypto(pw).decrypt(e["payload"])
                            if len(plain) >= 12 and plain[11] == (e["crc"] >> 24) & 0xff:
                                for m, c in all_prefix_contents(p["ops"]):
                                    if m == e["method"] and (m, c) not in seen and e["usize"] == len(c) and e["crc"] == (__import__('binascii').crc32(c) & 0xffffffff):
                                        seen.add((m, c))
                                        table.append((m, c, plain[12:]))
                    if e["method"] in (8, 12, 93) and not (e["flags"] & 1):
                        for m, c in all_prefix_contents(p["ops"]):
                            if m == e["method"] and (m, c) not in seen and (e["content"] == c or (e["content"] is None and e["usize"] == len(c) and e["crc"] == (__import__('binascii').crc32(c) & 0xffffffff))):
                                seen.add((m, c))
                                table.append((m, c, e["payload"]))
        lines.append(line(p["ops"], p.get("base"), p.get("plan"), table))
    return lines, outs

def all_prefix_contents(ops):
    out = []
    cur = None
    to_extra = False
    for op in ops:
        k = op[0]
        if k in ("file", "extra", "aligned"):
            cur = [op[2].method, b""]
            to_extra = k != "file"
            out.append((cur[0], b""))
        elif k in ("dir", "symlink", "rawcopy", "finish"):
            cur = None
        elif k == "endextra":
            to_extra = False
        elif k == "endlocal":
            to_extra = True
        elif k == "write" and cur is not None and not to_extra:
            cur[1] += op[1]
            out.append((cur[0], cur[1]))
    return out
