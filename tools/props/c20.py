"""C20 — cloned archive handles are independent and usable in parallel."""
import itertools
import struct
import genzip
from genzip import Entry
from zvlib import Check, run_lines, _parse_obs

def hexs(b):
    return "x" + b.hex()

def interleavings(scripts):
    """all merges of the per-handle scripts that keep each script's order"""
    idx = []
    for h, s in enumerate(scripts):
        idx += [h] * len(s)
    seen = set()
    for perm in set(itertools.permutations(idx)):
        pos = [0] * len(scripts)
        out = []
        for h in perm:
            out.append((h,) + scripts[h][pos[h]])
            pos[h] += 1
        yield out

class C20(Check):
    pid = "C20"
    rule = ("one thread: the original handle and 1-2 clones, per-handle scripts of 2-4 API calls (open entry i, read up to n "
            "bytes, close; same and different entries; partial reads resumed later; wrong password; missing index), ALL "
            "interleavings of the scripts that keep each handle's order (20-90 per script set; thorough: longer scripts, up to "
            "1680 per set), on archives with stored / deflated / ZipCrypto entries; compared with the handle model, and each "
            "handle's projection compared with the same script run alone.  Threads: 8-16 threads, each cloning through a "
            "shared reference and reading every entry (all methods, encrypted archive too) in its own random order with its own "
            "chunk size and a yield before every read, repeated rounds; every thread's results must equal the single-handle "
            "reference.  Send + Sync of ZipArchive<R> for Cursor<Vec<u8>>, File, BufReader<File>, Cursor<&[u8]> is a "
            "compile-time assertion in the harness.  non-trivial = >= 2 handles active; distinct = distinct observation")
    trusted = ["tools/genzip.py", "harness (unsafe lifetime extension for entries held across interleaved calls; std::thread)"]
    assumptions = ["OS thread schedules are sampled, not enumerated: the theorem carries the all-interleavings claim for the modelled state, the static assertion carries Send/Sync",
                   "the reader type's own Clone gives an independent cursor (Cursor<Vec<u8>> here)"]

    def gen(self):
        r = self.rng
        exe = self.exes["debug"]
        txt = bytes(range(256)) * 2
        A = genzip.build([Entry(b"a", txt[:100]), Entry(b"b", txt[100:350]), Entry(b"c", b""), Entry(b"d", txt, method=8), Entry(b"e", b"tail")])[0]
        B = genzip.build([Entry(b"p", txt[:90], password=b"pw"), Entry(b"q", txt[7:200], password=b"pw"), Entry(b"plain", b"not encrypted")])[0]
        sets = [
            (A, None, [[(0, 0), (1, 30), (1, 100)], [(0, 0), (1, 64), (1, 64)]]),                 # same entry on both
            (A, None, [[(0, 1), (1, 10), (1, 500)], [(0, 0), (1, 100), (2, 0)]]),                 # different entries
            (A, None, [[(0, 1), (1, 10), (0, 4), (1, 10)], [(0, 3), (1, 5), (1, 5)]]),            # reopen; compressed on the other
            (A, None, [[(0, 0), (1, 50)], [(0, 1), (1, 50)], [(0, 4), (1, 50)]]),                 # three handles
            (A, None, [[(0, 9), (0, 2), (1, 5)], [(0, 0), (1, 0), (1, 7)]]),                      # missing index, empty entry, zero read
            (B, b"pw", [[(0, 0), (1, 20), (1, 200)], [(0, 1), (1, 33), (1, 200)]]),
            (B, b"pw", [[(0, 0), (1, 20), (1, 200)], [(0, 0), (1, 5), (1, 200)]]),
            (B, b"no", [[(0, 0), (1, 20)], [(0, 2), (1, 20), (1, 20)]]),                          # wrong password / unencrypted entry
            (B, None, [[(0, 0), (1, 20)], [(0, 2), (1, 6), (1, 20)]]),                            # password required
        ]
        # damaged local headers (central directory intact): a failed open on one handle must not change what another sees
        _, man = genzip.build([Entry(b"a", txt[:100]), Entry(b"b", txt[100:350]), Entry(b"c", b""), Entry(b"d", txt, method=8), Entry(b"e", b"tail")])
        off_b = A.index(b"PK\x03\x04", 10)
        D1 = A[:off_b] + b"PK\x03\x05" + A[off_b + 4:]                       # signature of entry 1
        D2 = A[:off_b + 26] + b"\x02\x00" + A[off_b + 28:]                    # its name length field: 1 -> 2
        for D in (D1, D2):
            sets += [
                (D, None, [[(0, 1), (1, 40), (0, 0), (1, 10)], [(0, 1), (1, 40), (1, 300)]]),
                (D, None, [[(0, 1), (0, 1), (1, 40)], [(0, 0), (0, 1), (1, 40)]]),
            ]
        if self.tier == "thorough":
            sets += [
                (A, None, [[(0, 0), (1, 30), (1, 30), (1, 100), (2, 0)], [(0, 1), (1, 64), (1, 64), (1, 200)]]),
                (A, None, [[(0, 0), (1, 9), (1, 99)], [(0, 1), (1, 9), (1, 999)], [(0, 4), (1, 2), (1, 9)]]),
                (B, b"pw", [[(0, 0), (1, 1), (1, 1), (1, 200)], [(0, 1), (1, 2), (1, 2), (1, 200)]]),
            ]
        cases = []
        def line(data, pw, steps):
            return "clones %s %d %s " % (hexs(data), 1 if pw is not None else 0, hexs(pw or b"")) + " ".join("%d %d %d" % s for s in steps)
        for data, pw, scripts in sets:
            alone = run_lines(exe, [line(data, pw, [(0,) + s for s in sc]) for sc in scripts], shards=1)
            for sched in interleavings(scripts):
                cases.append((line(data, pw, sched), dict(k="il", sched=sched, alone=alone, nh=len(scripts))))
        # threads
        many = [Entry(b"f%03d" % i, bytes((i * 7 + j) % 251 for j in range(r.randrange(0, 3000))), method=r.choice([0, 8, 12])) for i in range(40)]
        M = genzip.build(many)[0]
        E = genzip.build([Entry(b"s%02d" % i, bytes((i + j) % 256 for j in range(500 + i)), password=b"pw", method=r.choice([0, 8])) for i in range(12)])[0]
        rounds = 4 if self.tier == "quick" else 60
        for data, pw in ((M, None), (E, b"pw"), (A, None)):
            for nt in (8, 16):
                cases.append(("clonethreads %s %d %s %d %d %d" % (hexs(data), 1 if pw else 0, hexs(pw or b""), nt, r.randrange(1 << 30), rounds),
                              dict(k="threads", impl_only=True)))
        # data_start() of a held entry must not move while other handles open the same entry in any way: successfully,
        # raw, with a wrong password, or an entry of a method the crate cannot decode (implementation-only scripts:
        # op 3 = report data_start, op 4 = by_index_raw)
        U = genzip.build([Entry(b"u0", txt[:50]), Entry(b"odd", b"abc", method=1, payload=b"\x01\x02\x03\x04"), Entry(b"u2", txt[:70], method=8)])[0]
        self._ds_sets_builder = lambda X_: [
            (B, b"pw", [(0, 0, 0), (0, 3, 0), (1, 4, 0), (0, 3, 0), (1, 2, 0), (0, 3, 0), (0, 1, 500)]),
            (B, b"no", [(0, 4, 0), (0, 3, 0), (1, 0, 0), (0, 3, 0), (1, 0, 1), (0, 3, 0)]),
            (U, None, [(0, 4, 1), (0, 3, 0), (1, 0, 1), (0, 3, 0), (1, 0, 0), (0, 3, 0), (1, 0, 2), (0, 3, 0)]),
            (A, None, [(0, 0, 2), (0, 3, 0), (1, 4, 2), (0, 3, 0), (1, 0, 2), (0, 3, 0)]),
            (X_, None, [(0, 0, 1), (0, 3, 0), (1, 4, 1), (0, 3, 0), (2, 0, 1), (0, 3, 0), (1, 1, 10), (0, 3, 0)]),
        ]
        # interleavings at I/O-call granularity: handle A is stopped in front of each of its read/seek calls while a second
        # clone opens and reads the same entry (entries with and without local extra fields, all methods, encrypted)
        X = genzip.build([Entry(b"x0", txt[:80], extra_local=struct.pack("<HH", 0xcafe, 6) + b"abcdef"),
                          Entry(b"x1", txt, method=8, z64_local=True), Entry(b"x2", txt[:33], extra_local=struct.pack("<HH", 0xbeef, 0)),
                          Entry(b"x3", b"", extra_local=struct.pack("<HH", 0xcafe, 1) + b"z"), Entry(b"x4", txt[5:300], method=12)])[0]
        import wprog
        from wprog import Opts
        wl = wprog.line([("file", b"w0", Opts(large=True)), ("write", b"large flag placeholder"), ("aligned", b"w1", Opts(), 64), ("write", b"aligned data"),
                         ("extra", b"w2", Opts(method=8)), ("write", struct.pack("<HH", 0xcafe, 3) + b"xyz"), ("endextra",), ("write", b"after extra " * 9), ("finish",)])
        W = wprog.final_bytes(run_lines(exe, [wl], shards=1)[0])[1]
        # raw opens and data_start() in interleavings (implementation only: ops 3 and 4 are not in the handle model): a
        # handle that opens an entry raw, asks for data_start() and reads must see what it sees alone whether or not
        # another clone opens the same entry (normally or raw) before, between or after -- entries whose local extra
        # field differs from the central one, where an offset guessed from the central record would be wrong
        raw_sets = [(X, [[(4, 0), (3, 0), (1, 40), (3, 0)], [(0, 0), (1, 20)]]),
                    (X, [[(4, 1), (3, 0), (1, 600)], [(0, 1), (1, 600), (3, 0)]]),
                    (X, [[(4, 3), (3, 0), (1, 5)], [(4, 3), (3, 0)], [(0, 3), (3, 0)]])]
        if W:
            raw_sets += [(W, [[(4, 0), (3, 0), (1, 40), (3, 0)], [(0, 0), (1, 20)]]),
                         (W, [[(4, 2), (3, 0), (1, 200)], [(0, 2), (3, 0), (1, 200)]])]
        # damaged entries (payload byte flipped / declared CRC changed): a handle that decodes such an entry must get the
        # checksum error it gets alone, whether or not another clone has read the same entry raw to its end before
        pa = A.index(b"PK\x03\x04", 10) + 30 + 1 + 5          # inside the stored payload of entry 1
        DA = A[:pa] + bytes([A[pa] ^ 0x40]) + A[pa + 1:]
        cd3 = A.index(b"PK\x01\x02"); 
        for _ in range(3):
            cd3 = A.index(b"PK\x01\x02", cd3 + 4)            # central record of entry 3 (deflated)
        DC = A[:cd3 + 16] + bytes([A[cd3 + 16] ^ 1]) + A[cd3 + 17:]
        raw_sets += [(DA, [[(4, 1), (1, 1000), (1, 10)], [(0, 1), (1, 1000), (1, 10)]]),
                     (DC, [[(4, 3), (1, 1000), (1, 10)], [(0, 3), (1, 1000), (1, 10)]]),
                     (DA, [[(0, 1), (1, 1000), (1, 10)], [(0, 1), (1, 100), (1, 1000)]])]
        # AES entries opened by different handles with different passwords (right, a proper prefix of it, empty): whether a
        # handle gets in must not depend on what another handle did before (implementation only: ops 5 and 6)
        AE = genzip.build([Entry(b"a1", txt[:60], password=b"helloworld", aes=(2, 1, bytes(range(8)))),
                           Entry(b"a2", txt[:90], method=8, password=b"helloworld", aes=(1, 3, bytes(range(16)))),
                           Entry(b"zc", txt[:40], password=b"helloworld")])[0]
        pw_sets = [[[(0, 0), (1, 100)], [(5, 0), (1, 100)]], [[(0, 0), (1, 100)], [(6, 0), (1, 100)]], [[(5, 1), (0, 1), (1, 100)], [(0, 1), (1, 100)]],
                   [[(0, 2), (1, 100)], [(5, 2), (6, 2), (1, 100)]], [[(0, 0), (0, 1), (1, 10)], [(6, 1), (5, 0), (1, 10)]]]
        for scripts in pw_sets:
            alone = run_lines(exe, [line(AE, b"helloworld", [(0,) + s_ for s_ in sc]) for sc in scripts], shards=1)
            for sched in interleavings(scripts):
                cases.append((line(AE, b"helloworld", sched), dict(k="il", sched=sched, alone=alone, nh=len(scripts), impl_only=True)))
        for data, scripts in raw_sets:
            alone = run_lines(exe, [line(data, None, [(0,) + s_ for s_ in sc]) for sc in scripts], shards=1)
            for sched in interleavings(scripts):
                cases.append((line(data, None, sched), dict(k="il", sched=sched, alone=alone, nh=len(scripts), impl_only=True)))
        for data, pw, steps in self._ds_sets_builder(X):
            cases.append((line(data, pw, steps), dict(k="ds", impl_only=True)))
        for data, pw in ((X, None), (W, None), (A, None), (B, b"pw")):
            if data:
                cases.append(("clonegate %s %d %s" % (hexs(data), 1 if pw else 0, hexs(pw or b"")), dict(k="gate", impl_only=True)))
        return cases

    def oracle(self, line, meta, out):
        if out is None or "PANIC" in out or out.startswith("ABORT") or out == "TIMEOUT":
            return "panic or process death: %s" % (out or "")[:200]
        p = _parse_obs(out)
        if meta["k"] == "ds":
            obs = p[0]
            seen = {}
            steps = [tuple(int(x) for x in t) for t in zip(*[iter(line.split()[4:])] * 3)]
            for (h, op, arg), o in zip(steps, obs):
                if op in (0, 4):
                    seen[h] = o[-1] if isinstance(o, list) and o[0] == "Ok" else None
                elif op == 3 and isinstance(o, list) and o[0] == "DS":
                    if seen.get(h) is not None and o[1] != seen[h]:
                        return "data_start() of an entry held open by handle %d moved from %s to %s while another handle used the archive" % (h, seen[h], o[1])
                elif op == 2:
                    seen[h] = None
            return None
        if meta["k"] == "gate":
            if not isinstance(p[0], list) or len(p[0]) != 3:
                return "unexpected output " + out[:120]
            scen, mism, detail = p[0]
            if int(mism) != 0:
                return "%s of %s I/O-level interleavings of two clones on one entry differ from a handle used alone: %s" % (mism, scen, detail)
            return None
        if meta["k"] == "threads":
            n, runs, mism, detail = p[0]
            if int(mism) != 0:
                return "%s of %s threads observed something else than a handle used alone: %s" % (mism, runs, detail)
            return None
        obs = p[0]
        sched = meta["sched"]
        for h in range(meta["nh"]):
            mine = [o for (s, o) in zip(sched, obs) if s[0] == h]
            want = _parse_obs(meta["alone"][h])[0]
            if mine != want:
                return "handle %d observed %s in the interleaving %s, but %s when used alone" % (h, str(mine)[:300], sched, str(want)[:300])
        return None

    def nontrivial(self, line, meta, out):
        return True

CHECK = C20
