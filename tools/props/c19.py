"""C19 — names and comments decode by the flagged encoding; raw bytes are kept."""
import re
from zvlib import Check

def hexs(b):
    return "x" + b.hex()

class C19(Check):
    pid = "C19"
    rule = ("all 256 byte values in both modes alone and embedded; random byte strings up to 64 KiB incl. every class "
            "of invalid UTF-8 (overlongs, surrogates, truncated tails, >U+10FFFF, stray continuations) in both modes, "
            "used as entry name, entry comment and archive comment, seekable and streaming; random Rust strings as "
            "writer names.  non-trivial = decoded text differs from the raw bytes; distinct = distinct output")
    trusted = ["CPython codecs (cp437, utf-8 errors=replace) as independent decoding oracle"]
    assumptions = ["String::from_utf8_lossy is modelled by Spec/Utf8.v (compared with std on every case)"]

    def rand_bytes(self, n):
        r = self.rng
        kind = r.randrange(6)
        if kind == 0:
            return bytes(r.randrange(256) for _ in range(n))
        if kind == 1:
            return bytes(r.choice([r.randrange(32, 127), r.randrange(128, 256)]) for _ in range(n))
        if kind == 2:   # valid utf-8 with damage
            s = "".join(chr(r.choice([r.randrange(32, 127), r.randrange(0x80, 0x800), r.randrange(0x800, 0xd800),
                                      r.randrange(0xe000, 0x10000), r.randrange(0x10000, 0x110000)])) for _ in range(max(1, n // 3)))
            b = bytearray(s.encode("utf-8"))
            for _ in range(r.randrange(0, 4)):
                if b:
                    i = r.randrange(len(b))
                    if r.random() < 0.5:
                        del b[i]
                    else:
                        b[i] = r.randrange(256)
            return bytes(b)
        if kind == 3:   # adversarial fragments
            frags = [b"\xc0\xaf", b"\xe0\x80\xaf", b"\xf0\x80\x80\xaf", b"\xed\xa0\x80", b"\xed\xbf\xbf", b"\xf4\x90\x80\x80",
                     b"\xf5\x80\x80\x80", b"\xe2\x82", b"\xf0\x9f\x98", b"\xf0\x9f", b"\x80", b"\xbf", b"\xc2", b"\xe0\xa0",
                     b"\xef\xbf\xbd", b"\xf0\x90\x80\x80", b"\xf4\x8f\xbf\xbf", b"\xe0\x9f\x80", b"\xf0\x8f\x80\x80", b"a", b"/"]
            return b"".join(r.choice(frags) for _ in range(max(1, n // 3)))
        if kind == 4:
            return bytes(r.randrange(0x80) for _ in range(n))
        return bytes(r.randrange(0xc0, 0x100) if i % 2 == 0 else r.randrange(0x80, 0xc0) for i in range(n))

    def gen(self):
        r = self.rng
        cases = []
        for flag in (0, 1):
            for b in range(256):
                cases.append(("text %d %s" % (flag, hexs(bytes([b]))), {"flag": flag}))
                cases.append(("text %d %s" % (flag, hexs(b"a" + bytes([b]) + b"z")), {"flag": flag}))
            for b0 in range(0xc0, 0x100):        # every lead byte with boundary second bytes
                for b1 in (0x7f, 0x80, 0x8f, 0x90, 0x9f, 0xa0, 0xbf, 0xc0):
                    cases.append(("text %d %s" % (flag, hexs(bytes([b0, b1, 0x80, 0x80, 0x41]))), {"flag": flag}))
        # the UTF-8 bit among other general-purpose bits a foreign producer may set (reserved 12-15, compression options 1-2)
        for other in (0x1000, 0x2000, 0x4000, 0x8000, 0xf000, 0x0002, 0x0004, 0x0006, 0xf006):
            for flag in (0, 1):
                for raw in ("caf\u00e9".encode("utf-8"), b"caf\x82", b"plain", "\u2603/\u00fc".encode("utf-8"), b"\x80", b"\xe2\x82"):
                    cases.append(("text %d %s" % (flag | (other << 1), hexs(raw)), {"flag": flag}))
        # name and entry comment of different kinds (ASCII name + high-byte comment and the reverse): each is decoded by the
        # flag, not by what the other looks like
        for flag in (0, 1):
            for nm_, cm_ in ((b"plain.txt", b"caf\x82 \xe6m"), (b"plain.txt", bytes(range(0x80, 0x100))), (b"caf\x82", b"ascii comment"),
                             (b"a", "\u00fc\u2603".encode("utf-8")), ("\u00fc".encode("utf-8"), b"x"), (b"n", b"\xff\xfe"), (b"", b"\x80")):
                cases.append(("text %d %s %s" % (flag, hexs(nm_), hexs(cm_)), {"flag": flag, "cm": cm_.hex()}))
        n = 6000 if self.tier == "quick" else 200000
        for i in range(n):
            ln = r.choice([1, 2, 3, 4, 5, 8, 16, 40, 200]) if i % 400 else r.choice([4096, 65535])
            cases.append(("text %d %s" % (r.randrange(2), hexs(self.rand_bytes(ln)[:65535])), {}))
        for i in range(n // 4):
            ln = r.choice([0, 1, 2, 5, 20, 100]) if i % 200 else 20000
            s = "".join(chr(r.choice([r.randrange(0, 128), r.randrange(0x80, 0x800), r.randrange(0x800, 0xd800),
                                      r.randrange(0xe000, 0x10000), r.randrange(0x10000, 0x110000)])) for _ in range(ln))
            b = s.encode("utf-8")[:65535].decode("utf-8", "ignore").encode("utf-8")
            cases.append(("wname " + hexs(b), {}))
        # the writer's flag logic under every entry kind and option: non-ASCII names must come back as written whether
        # or not the entry is encrypted, compressed, large, a directory or a symlink (read back by CPython's zipfile,
        # which decodes by the UTF-8 flag, and compared byte for byte with the writer model)
        import wprog
        from wprog import Opts
        names = ["donn\u00e9es/Cura\u00e7ao-\u2603.txt", "\u00fc", "plain-ascii.txt", "\U0001f600/x", "caf\u00e9"]
        progs = []
        for nm in names:
            nb = nm.encode("utf-8")
            for pw in (None, b"pw"):
                for m in (0, 8):
                    progs.append(([("file", nb, Opts(method=m, pw=pw)), ("write", b"content"), ("finish",)], [nm]))
                progs.append(([("dir", nb, Opts(pw=pw)), ("finish",)], [nm + "/"]))
                progs.append(([("symlink", nb, b"target", Opts(pw=pw)), ("finish",)], [nm]))
                progs.append(([("file", nb, Opts(large=True, pw=pw)), ("write", b"x"), ("file", b"second", Opts()), ("finish",)], [nm, "second"]))
            progs.append(([("extra", nb, Opts()), ("endextra",), ("write", b"y"), ("finish",)], [nm]))
            progs.append(([("aligned", nb, Opts(), 64), ("write", b"z"), ("finish",)], [nm]))
        # raw copies keep the NAME (the decoded string), whatever encoding the source stored it in: CP437 names without
        # the UTF-8 flag come out as the same text, now flagged UTF-8
        import genzip as _gz
        srcs = [(b"caf\x82.txt", False), ("\u65e5\u672c/\u00fc".encode("utf-8"), True), (b"\xff\xfe\x80", False), (b"plain", False), ("caf\u00e9".encode("utf-8"), False)]
        src = _gz.build([_gz.Entry(n, b"src %d" % i, utf8=u, method=(8 if i % 2 else 0)) for i, (n, u) in enumerate(srcs)])[0]
        want = [n.decode("utf-8") if u else n.decode("cp437") for n, u in srcs]
        for i in range(len(srcs)):
            progs.append(([("rawcopy", src, i, None), ("finish",)], [want[i]]))
        progs.append(([("file", b"first", Opts())] + [("rawcopy", src, i, None) for i in range(len(srcs))] + [("finish",)], ["first"] + want))
        lines, outs = wprog.with_tables(self.exes["debug"], [dict(ops=o) for o, _ in progs])
        for l, (o, exp) in zip(lines, progs):
            cases.append((l, {"k": "wprog", "names": exp}))
        # the same names through the streaming reader, over sources that deliver the stream in short pieces (a name
        # longer than one piece must still arrive whole): name, raw name and content as the seekable reader reports them
        import genzip
        from genzip import Entry
        streams = []
        for (o, exp), out1 in zip(progs, outs):
            if not any(getattr(y, "pw", None) for x in o for y in x):
                d = wprog.final_bytes(out1)[1]
                if d:
                    streams.append((d, len(exp)))
        longn = ("\u00e9t\u00e9-\u2603/" * 40).encode("utf-8")
        for flagged in (True, False):
            d, _ = genzip.build([Entry(longn, b"long name", utf8=flagged), Entry(b"caf\x82\x9b" * 30, b"cp437 or not", utf8=flagged, method=8),
                                 Entry("\u00fc".encode("utf-8"), b"", utf8=flagged)])
            streams.append((d, 3))
        for d, n in streams:
            for plan in (bytes([1]), bytes([7]), bytes([64]), bytes(r.randrange(1, 40) for _ in range(64))):
                pl = (plan * (4 * len(d) // len(plan) + 64))[:65535]
                cases.append(("stream_vs_seek %s xff %s" % (hexs(d), hexs(pl)), {"k": "svs", "n": n, "impl_only": True}))
        return cases

    def oracle(self, line, meta, out):
        if out is None or not out.startswith("[") or out.startswith("[PANIC") or (out.startswith("[Err") and meta.get("k") != "wprog"):
            return "implementation did not return a value: %s" % (out or "")[:100]
        if "DIFF" in out or "CHANGED" in out:
            return "accessors disagree: " + out[-60:]
        parts = line.split()
        if meta.get("k") == "svs":
            if not out.startswith("[SAME %d]" % meta["n"]):
                return "names / raw names / contents delivered by the streaming reader over a short-reading source differ from the seekable reader's: " + out[:160]
            return None
        if meta.get("k") == "wprog":
            import io, zipfile, wprog
            _, data = wprog.final_bytes(out)
            if not data:
                return "no archive produced: " + out[:100]
            try:
                got = zipfile.ZipFile(io.BytesIO(data)).namelist()
            except Exception as e:
                return "CPython zipfile cannot list the archive: %s" % e
            if got != meta["names"]:
                return "names read back by the flagged encoding %r differ from the names written %r" % (got, meta["names"])
            return None
        if parts[0] == "text":
            flag, raw = int(parts[1]) & 1, bytes.fromhex(parts[2][1:])
            m = re.match(r"\[x([0-9a-f]*) x([0-9a-f]*)(?: x([0-9a-f]*))?\]", out)
            if not m:
                return "unexpected output"
            if meta.get("cm") is not None:
                cmr = bytes.fromhex(meta["cm"])
                wantc = cmr.decode("utf-8", "replace") if flag else cmr.decode("cp437")
                if m.group(3) is None or bytes.fromhex(m.group(3)) != wantc.encode("utf-8"):
                    return "entry comment differs from the %s decoding" % ("UTF-8 (lossy)" if flag else "CP437")
            want = raw.decode("utf-8", "replace") if flag else raw.decode("cp437")
            if bytes.fromhex(m.group(1)) != want.encode("utf-8"):
                return "decoded text differs from the %s decoding" % ("UTF-8 (lossy)" if flag else "CP437")
            if bytes.fromhex(m.group(2)) != raw:
                return "raw name changed"
        else:
            raw = bytes.fromhex(parts[1][1:])
            m = re.match(r"\[(true|false) x([0-9a-f]*) x([0-9a-f]*)\]", out)
            if not m:
                return "unexpected output"
            if (m.group(1) == "true") != any(b >= 0x80 for b in raw):
                return "UTF-8 flag not set exactly for non-ASCII names"
            if bytes.fromhex(m.group(2)) != raw or bytes.fromhex(m.group(3)) != raw:
                return "writer name not read back unchanged"
        return None

    def nontrivial(self, line, meta, out):
        m = re.match(r"\[x([0-9a-f]*) x([0-9a-f]*)\]", out or "")
        return bool(m) and m.group(1) != m.group(2) or (out or "").startswith("[true")

CHECK = C19
