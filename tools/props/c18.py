"""C18 — timestamps convert to and from DOS format without loss or panic."""
import calendar, datetime, re
from zvlib import Check, run_lines

def parse_list(s):
    m = re.match(r"\[(.*)\]$", s or "")
    return m.group(1).split() if m else None

class C18(Check):
    pid = "C18"
    profiles = ("debug", "release")
    rule = ("dos_from: random + boundary (date,time) words; dos_ctor: every field exhaustively with neighbours "
            "+ random joint values; dos_to_time: all 65536 date words at t=0 + random; dos_try_from: every day "
            "1979-01-01..2108-12-31 at a varying second; plus the closed form over all 2^32 words in release. "
            "non-trivial = accepted value (not NONE); distinct = distinct implementation output")
    trusted = ["CPython datetime/calendar as the independent calendar oracle"]
    assumptions = ["calendar validity rules of the `time` crate are modelled by hand (Model/Dos.v) and compared on every date"]

    def gen(self):
        r = self.rng
        n = 3000 if self.tier == "quick" else 60000
        cases = []
        edge = [0, 1, 31, 32, 33, 0x21, 0x1ff, 0x200, 0x7fff, 0x8000, 0xfe00, 0xffff, 0xf800, 0x07e0, 0x001f]
        for d in edge:
            for t in edge:
                cases.append(("dos_from %d %d" % (d, t), {"k": "from", "d": d, "t": t}))
        for _ in range(n):
            d, t = r.randrange(65536), r.randrange(65536)
            cases.append(("dos_from %d %d" % (d, t), {"k": "from", "d": d, "t": t}))
        base = [2018, 11, 17, 10, 38, 30]
        doms = [[0, 1979, 1980, 1981, 2000, 2106, 2107, 2108, 65535] + list(range(1970, 2120)),
                list(range(0, 20)) + [255], list(range(0, 40)) + [255], list(range(0, 30)) + [255],
                list(range(0, 70)) + [255], list(range(0, 70)) + [255]]
        for i, dom in enumerate(doms):
            for v in dom:
                a = list(base); a[i] = v
                cases.append(("dos_ctor " + " ".join(map(str, a)), {"k": "ctor", "a": a}))
        for _ in range(n):
            a = [r.choice([r.randrange(1975, 2112), r.randrange(65536)]), r.randrange(0, 16), r.randrange(0, 36),
                 r.randrange(0, 28), r.randrange(0, 64), r.randrange(0, 64)]
            cases.append(("dos_ctor " + " ".join(map(str, a)), {"k": "ctor", "a": a}))
        step = 1 if self.tier == "thorough" else 1
        for d in range(0, 65536, step):
            t = 0 if self.tier == "quick" else r.randrange(65536)
            cases.append(("dos_to_time %d %d" % (d, t), {"k": "to_time", "d": d, "t": t}))
        for _ in range(n):
            d, t = r.randrange(65536), r.randrange(65536)
            cases.append(("dos_to_time %d %d" % (d, t), {"k": "to_time", "d": d, "t": t}))
        day0 = calendar.timegm((1979, 1, 1, 0, 0, 0))
        day1 = calendar.timegm((2109, 1, 1, 0, 0, 0))
        ts = day0
        while ts < day1:
            s = ts + r.choice([0, 86399, r.randrange(86400)])
            cases.append(("dos_try_from %d" % s, {"k": "try_from", "ts": s}))
            ts += 86400
        # the same conversion for values in other UTC offsets (the calendar fields of the value as given count), dense
        # around both ends of the representable range
        for edge in (calendar.timegm((1980, 1, 1, 0, 0, 0)), calendar.timegm((2108, 1, 1, 0, 0, 0))):
            for off in (0, 1800, 3600, 19800, 43200, 50400, -1800, -3600, -34200, -43200):
                for d in (-50401, -3601, -3600, -1801, -1, 0, 1, 1799, 1800, 3599, 3600, 43200, 50400):
                    s = edge + d
                    cases.append(("dos_try_from %d %d %d" % (s, max(off, 0), max(-off, 0)), {"k": "try_from", "ts": s + off}))
        # sub-second parts: dropped, never rounded into the next second / minute (second 59 + 0.5 s must not become 60)
        for base_ in (calendar.timegm((2018, 11, 17, 10, 38, 59)), calendar.timegm((1980, 1, 1, 0, 0, 59)), calendar.timegm((2107, 12, 31, 23, 59, 59)),
                      calendar.timegm((2000, 2, 29, 12, 0, 0)), calendar.timegm((2024, 6, 30, 23, 59, 58))):
            for ns in (0, 1, 499999999, 500000000, 999999999):
                cases.append(("dos_try_from %d 0 0 %d" % (base_, ns), {"k": "try_from", "ts": base_}))
        # far outside the range: one instant in every year 1..9999 (years congruent to an accepted one modulo 256 or
        # 65536 included), and the extremes the calendar type can hold
        for y in range(1, 10000):
            s_ = calendar.timegm((y, 1 + y % 12, 1 + y % 28, y % 24, y % 60, y % 60))
            if s_ >= 0:
                cases.append(("dos_try_from %d" % s_, {"k": "try_from", "ts": s_}))
            else:
                cases.append(("dos_try_from_neg %d" % -s_, {"k": "try_from", "ts": s_, "impl_only": True}))
        for s_ in (-377705116800, -62135596800, -1, 253402300799):      # -9999-01-01, 0001-01-01, 1969-12-31 23:59:59, 9999-12-31 23:59:59
            cases.append((("dos_try_from %d" % s_) if s_ >= 0 else ("dos_try_from_neg %d" % -s_), {"k": "try_from", "ts": s_, "impl_only": s_ < 0}))
        # through the writer: the (date, time) words an entry is given -- as DateTime::from_msdos produces them from any
        # archive, valid calendar date or not -- are the words in its local header and central record, whether the entry is
        # started, copied raw from an archive carrying them, or re-emitted by an append round
        import wprog
        from wprog import Opts
        words = [(0, 0), (0x21, 0), (0x1a0 | 5, 0), (0x1c0 | 5, 0), (0x1e0 | 5, 0), (0x4d20, 0), (0x4d71, 24 << 11), (0x4d71, 31 << 11),
                 (0x4d71, 60 << 5), (0x4d71, 63 << 5), (0x4d71, 30), (0x4d71, 31), (0xffff, 0xffff), (0x0021, 0xbf7d), (0xff9f, 0xbf7d)]
        words += [(r.randrange(65536), r.randrange(65536)) for _ in range(25 if self.tier == "quick" else 400)]
        progs = [[("file", b"t", Opts(date=d, time=t)), ("write", b"stamp"), ("dir", b"d", Opts(date=t, time=d)), ("finish",)] for d, t in words]
        wl = [wprog.line(ops) for ops in progs]
        first = run_lines(self.exes["debug"], wl)
        for (d, t), l, o in zip(words, wl, first):
            cases.append((l, {"k": "wr", "w": [(d, t), (t, d)]}))
            arch = wprog.final_bytes(o)[1]
            if arch:
                # the same words as the STREAMING reader decodes them from the local headers: equal to the seekable reader's
                cases.append(("stream_vs_seek %s xff" % ("x" + arch.hex()), {"k": "svs", "impl_only": True}))
                cases.append((wprog.line([("file", b"first", Opts()), ("rawcopy", arch, 0, None), ("rawcopy", arch, 1, b"renamed/"), ("finish",)]),
                              {"k": "wr", "w": [None, (d, t), (t, d)]}))
                cases.append((wprog.line([("file", b"added", Opts()), ("finish",)], base=arch), {"k": "wr", "w": [(d, t), (t, d), None]}))
        return cases

    def oracle(self, line, meta, out):
        k = meta["k"]
        if k == "svs":
            return None if (out or "").startswith("[SAME 2]") else "timestamps (or other metadata) decoded by the streaming reader differ from the seekable reader's: " + (out or "")[:200]
        if k == "wr":
            import wprog, struct
            if out is None or "PANIC" in out or out.startswith("ABORT") or out == "TIMEOUT":
                return "implementation did not return: %s" % (out or "")[:160]
            data = wprog.final_bytes(out)[1]
            if not data:
                return "a legal writer program produced no archive: " + out[:120]
            eo = data.rfind(b"PK\x05\x06")
            n, cdsize, cdoff = struct.unpack("<HII", data[eo + 10:eo + 20])
            if n != len(meta["w"]):
                return "archive lists %d entries, %d were written" % (n, len(meta["w"]))
            pos = cdoff
            for i, w in enumerate(meta["w"]):
                ct, cd = struct.unpack("<HH", data[pos + 12:pos + 16])
                nl, xl, cl = struct.unpack("<HHH", data[pos + 28:pos + 34])
                lho = struct.unpack("<I", data[pos + 42:pos + 46])[0]
                lt, ld = struct.unpack("<HH", data[lho + 10:lho + 14])
                if w is not None and ((cd, ct) != tuple(w) or (ld, lt) != tuple(w)):
                    return "entry %d was given DOS date/time words %s, its central record holds %s and its local header %s" % (i, tuple(w), (cd, ct), (ld, lt))
                pos += 46 + nl + xl + cl
            return None
        if out is None or out.startswith("[PANIC") or out.startswith("ABORT") or out == "TIMEOUT":
            return "implementation did not return: %s" % out
        f = parse_list(out)
        if k == "from":
            if f is None or len(f) != 8:
                return "unexpected output " + out
            if f[6] == "NONE" or int(f[6]) != meta["d"] or int(f[7]) != meta["t"]:
                return "unpack/pack not identity: (%d,%d) -> %s" % (meta["d"], meta["t"], out)
            d, t = meta["d"], meta["t"]
            want = [(d >> 9) + 1980, (d >> 5) & 15, d & 31, t >> 11, (t >> 5) & 63, (t & 31) * 2]
            if [int(x) for x in f[:6]] != want:
                return "fields differ from the DOS layout: %s vs %s" % (f[:6], want)
        elif k == "ctor":
            y, mo, d, h, mi, s = meta["a"]
            ok = 1980 <= y <= 2107 and 1 <= mo <= 12 and 1 <= d <= 31 and h <= 23 and mi <= 59 and s <= 60
            if ok != (f is not None):
                return "constructor %s %s, documented ranges say %s" % (meta["a"], "accepted" if f else "rejected", ok)
            if f is not None:
                if [int(x) for x in f[:6]] != meta["a"]:
                    return "constructor changed its arguments"
                if f[6] == "NONE":
                    return "datepart panics on an accepted value"
                dp, tp = int(f[6]), int(f[7])
                back = [(dp >> 9) + 1980, (dp >> 5) & 15, dp & 31, tp >> 11, (tp >> 5) & 63, (tp & 31) * 2]
                if back != [y, mo, d, h, mi, s - s % 2]:
                    return "accepted value does not survive packing up to 2 s: %s -> %s" % (meta["a"], back)
        elif k == "to_time":
            d, t = meta["d"], meta["t"]
            y, mo, dd, h, mi, s = (d >> 9) + 1980, (d >> 5) & 15, d & 31, t >> 11, (t >> 5) & 63, (t & 31) * 2
            try:
                want = calendar.timegm(datetime.datetime(y, mo, dd, h, mi, s).timetuple())
            except ValueError:
                want = None
            got = None if out == "NONE" else int(out)
            if want != got:
                return "to_time(%04d-%02d-%02d %02d:%02d:%02d) = %s, calendar says %s" % (y, mo, dd, h, mi, s, got, want)
        elif k == "try_from":
            if meta["ts"] < -62135596800:
                return None if f is None else "an instant before year 1 was accepted: %s" % f[:6]
            dtm = datetime.datetime(1970, 1, 1) + datetime.timedelta(seconds=meta["ts"])
            ok = 1980 <= dtm.year <= 2107
            if ok != (f is not None):
                return "try_from(%s) %s" % (dtm, "accepted" if f else "rejected")
            if f is not None and [int(x) for x in f[:6]] != [dtm.year, dtm.month, dtm.day, dtm.hour, dtm.minute, dtm.second]:
                return "try_from(%s) = %s" % (dtm, f[:6])
        return None

    def nontrivial(self, line, meta, out):
        return out not in (None, "NONE")

    def sweep_all(self, exes):
        lines = ["dos_all %d %d" % (i * 4096, (i + 1) * 4096) for i in range(16)]
        outs = run_lines(exes["release"], lines, shards=16, timeout=900)
        for l, o in zip(lines, outs):
            if o != "OK":
                return l, o
        return None

    def extra_checks(self, exes, model):
        bad = self.sweep_all(exes)
        self.notes.append("closed form datepart(from_msdos(d,t))==d && timepart(..)==t over all 2^32 pairs (release): %s"
                          % ("ok" if not bad else bad[1]))
        if bad:
            m = re.match(r"\[FAIL (\d+) (\d+)\]", bad[1] or "")
            req = "dos_from %s %s" % (m.group(1), m.group(2)) if m else bad[0]
            return [(dict(request=req, sweep=bad[0], result=bad[1]), "exhaustive 2^32 sweep: pack(unpack(d,t)) != (d,t)")]
        return []

    def search(self, exes):
        return None      # the exhaustive sweep in extra_checks already is the search

CHECK = C18
