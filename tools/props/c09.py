"""C09 — results do not depend on how I/O is chunked."""
import re
import genzip
from genzip import Entry
from zvlib import Check, run_lines
from props.c04 import parse_entry_out

def hexs(b):
    return "x" + b.hex()

class C09(Check):
    pid = "C09"
    rule = ("intact seed archives (stored/deflate/bzip2/zstd; plain, ZipCrypto, AE-1, AE-2) x schedules: uniform inner "
            "chunk k=1..K, a single short read at every byte position of the entry, random plans, 16/32-byte refill "
            "patterns x caller buffers {1,2,3,7,64,255, mixes with zero-length reads}; short reads either from the "
            "first byte of the archive (metadata included; compared with the unfragmented run) or from the first entry "
            "read (compared with the model).  non-trivial = the schedule really fragments (more than one chunk "
            "delivered); distinct = distinct (archive, entry, schedule) outputs")
    trusted = ["tools/genzip.py reference builder"]
    assumptions = ["chunk independence of flate2/bzip2/zstd decoders is exercised, not proved",
                   "writer side: proved for the sink primitives (write_all, field-by-field headers) and for the write call on a stored entry under every failure-free short-write plan; whole programs (compressing/encrypting arms, finish) under short writes are compared byte-for-byte with the unchunked run in the implementation and the model, not proved"]

    def seeds(self):
        zs = run_lines(self.exes["debug"], ["zstd_compress %s 3" % hexs(b"zstd payload " * 9)], shards=1)[0]
        zst = bytes.fromhex(zs[1:])
        txt = b"The quick brown fox jumps over the lazy dog. "
        return [
            ("plain", [Entry(b"s.txt", txt * 2), Entry(b"d.txt", txt * 4, method=8)], None),
            ("bz", [Entry(b"b.txt", txt * 3, method=12), Entry(b"e", b"")], None),
            ("zstd", [Entry(b"z", b"zstd payload " * 9, method=93, payload=zst)], None),
            ("zc", [Entry(b"c1", txt * 2, password=b"pw"), Entry(b"c2", txt * 3, method=8, password=b"pw"),
                    Entry(b"c3", txt, method=12, password=b"pw", dd="sig32")], b"pw"),
            ("ae1", [Entry(b"a1", txt, password=b"pw", aes=(1, 1, bytes(range(8)))),
                     Entry(b"a1d", txt * 3, method=8, password=b"pw", aes=(1, 3, bytes(range(16))))], b"pw"),
            ("ae2", [Entry(b"a2", txt * 2, password=b"pw", aes=(2, 2, bytes(range(12)))),
                     Entry(b"a2e", b"", password=b"pw", aes=(2, 1, bytes(range(8))))], b"pw"),
        ]

    def gen(self):
        r = self.rng
        cases = []
        K = 17 if self.tier == "quick" else 64
        bufsets = [bytes([1]), bytes([2]), bytes([3]), bytes([7]), bytes([64]), bytes([255]), bytes([0, 3]),
                   bytes([0, 0, 0, 1]), bytes([5, 0, 1]), bytes([255, 1])]
        for sname, ents, pw in self.seeds():
            data, man = genzip.build(ents, comment=b"chunky")
            for idx, m in enumerate(man["entries"]):
                n = m["csize"]
                plans = [bytes([k]) * (n // k + 2) for k in range(1, K)]
                plans += [bytes([p]) for p in range(1, min(n + 1, 255))]                      # one short read at byte p
                plans += [bytes([16]) * (n // 16 + 2), bytes([32]) * (n // 32 + 2), b""]
                for _ in range(250 if self.tier == "quick" else 2500):
                    plans.append(bytes(r.randrange(1, 41) for _ in range(r.randrange(1, 12))))
                for j, pl in enumerate(plans):
                    bs = bufsets[(j + idx) % len(bufsets)] if self.tier == "quick" else None
                    for b in ([bs] if bs is not None else bufsets):
                        meta = dict(seed=sname, idx=idx, content=m["content"], plan_len=len(pl), mode=0)
                        cases.append(("entry_sched %s %d %d %s %s %s 0" % (hexs(data), idx, 1 if pw else 0, hexs(pw or b""), hexs(pl[:65535]), hexs(b)), meta))
                # short reads from the very first byte (open + metadata + data), impl vs unfragmented impl
                full = len(data)
                for k in (1, 2, 3, 5, 7, 13, 64):
                    pl = bytes([k]) * min(65535, 4 * full // k + 64)
                    meta = dict(seed=sname, idx=idx, content=m["content"], plan_len=len(pl), mode=1, impl_only=True)
                    cases.append(("entry_sched %s %d %d %s %s %s 1" % (hexs(data), idx, 1 if pw else 0, hexs(pw or b""), hexs(pl), hexs(bytes([r.choice([1, 7, 64])]))), meta))
        # ---- the streaming reader over short-reading sources, entries read completely, partly or not at all before moving on
        # (the unread rest is skipped by the reader itself): same sequence as the seekable reader reports
        sdata = genzip.build([genzip.Entry(b"s0", b"stream zero " * 40), genzip.Entry(b"s1", b"one " * 300, method=8), genzip.Entry(b"s2", b""),
                              genzip.Entry(b"s3", bytes(range(256)) * 3, method=12), genzip.Entry(b"s4", b"tail")], comment=b"chunky")[0]
        for pat in (b"", b"\x00", b"\x03", b"\xff\x00", b"\x00\xff\x05"):
            for k in (1, 7, 64, 100):
                pl = (bytes([k]) * (4 * len(sdata) // k + 64))[:65535]
                cases.append(("stream_vs_seek %s %s %s" % (hexs(sdata), hexs(pat), hexs(pl)), dict(mode=3, n=5, impl_only=True, content=None, plan_len=len(pl))))
        # ---- writer side: the archive is byte-identical however the sink accepts short writes
        import wprog
        from wprog import Opts
        progs = []
        for j in range(12 if self.tier == "quick" else 200):
            ops = []
            for i in range(r.randrange(1, 4)):
                m = r.choice([0, 0, 8, 12, 93])
                ops.append(("file", b"w%d" % i, Opts(method=m, large=r.random() < 0.2, pw=r.choice([None, None, b"pw"]))))
                c = bytes(r.randrange(256) for _ in range(r.choice([0, 1, 50, 3000])))
                ops.append(("write", c))
            if r.random() < 0.4:
                ops.append(("dir", b"d", Opts()))
            if j % 2 == 0:
                # local extra data (written when the extra-data mode ends) and alignment padding
                import struct as _st
                rec = _st.pack("<HH", 0xcafe, 40) + bytes(range(1, 41))
                ops += [("extra", b"x%d" % j, Opts(method=r.choice([0, 8]), large=r.random() < 0.3)), ("write", rec), ("endextra",), ("write", b"after extra data " * 5)]
                ops += [("aligned", b"al%d" % j, Opts(), r.choice([64, 512, 4096])), ("write", b"aligned")]
                ops += [("extra", b"y%d" % j, Opts()), ("write", rec), ("endlocal",), ("write", _st.pack("<HH", 0xbeef, 3) + b"abc"), ("endextra",), ("write", b"split")]
            ops.append(("comment", b"short writes"))
            ops.append(("finish",))
            progs.append(ops)
        runs = []
        for ops in progs:
            runs.append(dict(ops=ops, plan=None))
            for k in (1, 2, 7):
                runs.append(dict(ops=ops, plan=bytes([k]) * 4000))
            runs.append(dict(ops=ops, plan=bytes(r.choice([1, 3, 9, 255]) for _ in range(3000))))
        lines, outs = wprog.with_tables(self.exes["debug"], runs)
        base = None
        for rn, l, o in zip(runs, lines, outs):
            _, data = wprog.final_bytes(o)
            if rn["plan"] is None:
                base = data
                cases.append((l, dict(mode=2, content=None, plan_len=0)))
            else:
                meta = dict(mode=2, content=None, plan_len=len(rn["plan"]))
                if data != base:
                    meta["pre_violation"] = "archive bytes differ when the sink accepts short writes"
                cases.append((l, meta))
        return cases

    def oracle(self, line, meta, out):
        if meta.get("pre_violation"):
            return meta["pre_violation"]
        if meta.get("mode") == 2:
            return "writer call failed or panicked under short writes: " + out[:100] if (out is None or "PANIC" in out or "[Err" in out) else None
        if out is None or "PANIC" in out or out.startswith("ABORT") or out == "TIMEOUT":
            return "implementation did not return: %s" % (out or "")[:120]
        if "EOF-NOT-STICKY" in out or "LIVELOCK" in out or "BAD-COUNT" in out:
            return "read contract broken: " + out[:60]
        if meta["mode"] == 3:
            return None if out.startswith("[SAME %d]" % meta["n"]) else "streamed sequence over a short-reading source differs from the seekable reader's: " + out[:200]
        if meta["mode"] == 1:
            if not out.startswith("[SAME "):
                return "fragmented run differs from the unfragmented one: " + out[:200]
            out = out[len("[SAME "):]
        m = re.search(r"\[Ok x([0-9a-f]*)(?: \[[0-9 ]*\])?\]*$", out)
        if not m:
            return "intact entry failed under this schedule: " + out[-160:]
        if meta["content"] is not None and m.group(1) != meta["content"]:
            return "bytes differ from the entry's content under this schedule"
        return None

    def nontrivial(self, line, meta, out):
        m = re.search(r"\[([0-9 ]*)\]\]\]$", out or "")
        return meta["mode"] in (1, 2, 3) or (bool(m) and len(m.group(1).split()) > 1)

CHECK = C09
