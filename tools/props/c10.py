"""C10 — streaming reader agrees with the seekable reader."""
import re, struct
import genzip
from genzip import Entry
from zvlib import Check, run_lines

def hexs(b):
    return "x" + b.hex()

def zipfile_names(b):
    import io, zipfile
    return zipfile.ZipFile(io.BytesIO(b)).namelist()

class C10(Check):
    pid = "C10"
    rule = ("streamable archives (sizes in the local headers, no encryption) from the reference builder and from the "
            "crate's own writer, >= 1 entry, all methods, ZIP64 local extras, unknown extras, prefix-free; per-entry "
            "consumption patterns from {0,1,k,all-1,all} and random, cyclic; plus archives the stream must refuse "
            "(encrypted, data descriptor) and damaged local headers.  Compared: the streamed sequence with the model "
            "(metadata, partial/complete content, end-of-entries), the visitor's file and metadata callbacks with the "
            "model, and (oracle) the streamed sequence with the seekable reader on the same bytes, over a plain cursor and "
            "over sources that deliver 1, 7 or random-sized short reads.  non-trivial = "
            ">= 2 entries or a partial consumption; distinct = distinct output")
    trusted = ["tools/genzip.py reference builder"]
    assumptions = ["compressed entries are compared up to metadata in the model (SKIP) and judged by the seekable-vs-stream oracle"]

    def gen(self):
        r = self.rng
        zs = run_lines(self.exes["debug"], ["zstd_compress %s 3" % hexs(b"zstd payload " * 9)], shards=1)[0]
        zst = bytes.fromhex(zs[1:])
        cases = []
        pats = [b"", b"\x00", b"\x01", b"\x05", b"\xff\x00", b"\x00\xff", b"\x03\xff\x00\x01"]
        def add(data, expect, n):
            for p in (pats if self.tier == "thorough" else r.sample(pats, 3)):
                cases.append(("stream_consume %s %s" % (hexs(data), hexs(p)), dict(k="consume", expect=expect, n=n, pat=p.hex())))
                cases.append(("stream_vs_seek %s %s" % (hexs(data), hexs(p)), dict(k="vs", expect=expect, n=n, pat=p.hex(), impl_only=True)))
                # the same walk over a stream that delivers short reads (unread remainders must still be skipped entirely)
                for plan in (bytes([1]), bytes([7]), bytes(r.randrange(1, 40) for _ in range(64))):
                    pl = (plan * (4 * len(data) // len(plan) + 64))[:65535]
                    cases.append(("stream_vs_seek %s %s %s" % (hexs(data), hexs(p), hexs(pl)),
                                  dict(k="vs", expect=expect, n=n, pat=p.hex(), impl_only=True, chunked=True)))
            cases.append(("visit " + hexs(data), dict(k="visit", expect=expect, n=n)))
        for a in range(120 if self.tier == "quick" else 3000):
            k = r.choice([1, 1, 2, 3, 5, 9])
            ents = []
            for i in range(k):
                method = r.choice([0, 0, 8, 12, 93])
                content = r.choice([b"", b"x", b"stream me " * r.randrange(1, 30), bytes(r.randrange(256) for _ in range(r.randrange(1, 300)))])
                kw = {}
                if method == 93:
                    content, kw = b"zstd payload " * 9, dict(payload=zst)
                name = r.choice([b"s%d" % i, b"d%d/" % i, "ü%d".encode()])
                if name.endswith(b"/"):
                    content, method, kw = b"", 0, {}
                ents.append(Entry(name, content, method=method, utf8=r.random() < 0.5, z64_local=r.random() < 0.2,
                                  extra_local=r.choice([b"", struct.pack("<HH2s", 0xcafe, 2, b"ab"), b"", b"\0", b"\0\0\0",
                                                        struct.pack("<HH2s", 0xcafe, 2, b"ab") + b"\0\0",           # zipalign-style padding
                                                        struct.pack("<HH", 0xbeef, 9) + b"short",                 # record longer than the field
                                                        struct.pack("<HH", 0x5455, 5) + b"\x01abcd" + b"\0"]),
                                  extra_central=r.choice([b"", struct.pack("<HH1s", 0xbeef, 1, b"q")]),
                                  comment=r.choice([b"", b"fc"]), ext_attr=r.choice([0o100644 << 16, 0o100755 << 16, 0o40755 << 16, 0]),
                                  date_time=(r.randrange(65536), r.randrange(65536)), **kw))
            data, man = genzip.build(ents, comment=r.choice([b"", b"cm"]), force_z64=r.choice([False, False, True]))
            add(data, "ok", k)
        # produced by the crate's writer
        for a in range(10 if self.tier == "quick" else 100):
            out = run_lines(self.exes["debug"], ["zcwrite x 0 255 %s %s" % (hexs(b"w" * a), hexs(b"n%d" % a))], shards=1)[0]
        # archives from the crate's writer with raw copies in them (their local headers are written once and never patched)
        import wprog
        from wprog import Opts
        srcz, _ = genzip.build([Entry(b"s0", b"raw copy source " * 20, method=8), Entry(b"s1", b"stored source"), Entry(b"s2", b"bz " * 90, method=12)])
        progs = []
        for order in ((0, 1, 2), (2, 0), (1,)):
            ops = [("file", b"first", Opts(method=8)), ("write", b"first entry " * 9)]
            for k in order:
                ops.append(("rawcopy", srcz, k, None if k else b"renamed"))
            ops += [("file", b"last", Opts()), ("write", b"tail"), ("finish",)]
            progs.append(ops)
        # everything else the writer emits without encryption: every method x {empty, one byte, text} contents, directories,
        # symlinks, large_file, aligned and extra-data entries, in random orders (an EMPTY entry of a compressing method
        # still has a non-empty payload)
        for a in range(12 if self.tier == "quick" else 300):
            ops = []
            for i in range(r.choice([1, 2, 3, 5, 8])):
                o_ = Opts(method=r.choice([0, 8, 8, 12, 93]), large=r.random() < 0.15)
                c_ = r.choice([b"", b"", b"x", b"streamed content " * r.randrange(1, 30)])
                kind = r.random()
                if kind < 0.6:
                    ops += [("file", b"w%d" % i, o_)] + ([("write", c_)] if c_ or r.random() < 0.5 else [])
                elif kind < 0.7:
                    ops += [("dir", b"wd%d" % i, o_)]
                elif kind < 0.8:
                    ops += [("symlink", b"wl%d" % i, r.choice([b"", b"target"]), o_)]
                elif kind < 0.9:
                    ops += [("aligned", b"wa%d" % i, o_, r.choice([4, 64, 4096])), ("write", c_)]
                else:
                    ops += [("extra", b"wx%d" % i, o_), ("write", struct.pack("<HH", 0xcafe, 3) + b"abc"), ("endextra",), ("write", c_)]
            progs.append(ops + [("finish",)])
        _, outs_w = wprog.with_tables(self.exes["debug"], [dict(ops=o) for o in progs])
        for o in outs_w:
            _, wd = wprog.final_bytes(o)
            if wd:
                for p_ in (b"", b"\x00", b"\x03\xff"):
                    cases.append(("stream_vs_seek %s %s" % (hexs(wd), hexs(p_)), dict(k="vs", expect="ok", n=len(zipfile_names(wd)), pat=p_.hex(), impl_only=True)))
                cases.append(("stream_vs_seek %s xff %s" % (hexs(wd), hexs((bytes([7]) * (len(wd) + 64))[:65535])), dict(k="vs", expect="ok", n=len(zipfile_names(wd)), pat="ff", impl_only=True, chunked=True)))
                cases.append(("visit " + hexs(wd), dict(k="visit", expect="ok", n=len(zipfile_names(wd)), impl_only=True)))
        # archives extended by append rounds (the old directory is overwritten by the new entries: nothing may be left
        # between old and new entries that stops the stream)
        bases = [wprog.final_bytes(o)[1] for o in outs_w[:6]]
        aprogs = [dict(ops=[("file", b"appended-1", Opts(method=8)), ("write", b"appended content " * 5), ("file", b"appended-2", Opts()), ("write", b"x"), ("finish",)], base=b_)
                  for b_ in bases if b_]
        aprogs += [dict(ops=[("finish",)], base=b_) for b_ in bases[:2] if b_]
        _, outs_a = wprog.with_tables(self.exes["debug"], aprogs)
        for o in outs_a:
            _, wd = wprog.final_bytes(o)
            if wd:
                n_ = len(zipfile_names(wd))
                for p_ in (b"", b"\x00", b"\x03\xff"):
                    cases.append(("stream_vs_seek %s %s" % (hexs(wd), hexs(p_)), dict(k="vs", expect="ok", n=n_, pat=p_.hex(), impl_only=True)))
                cases.append(("visit " + hexs(wd), dict(k="visit", expect="ok", n=n_, impl_only=True)))
        # must be refused, not mis-read
        for ents in ([Entry(b"p", b"plain"), Entry(b"e", b"secret", password=b"pw")], [Entry(b"p", b"plain"), Entry(b"dd", b"data", method=8, dd="sig32")],
                     [Entry(b"a", b"aes", password=b"pw", aes=(2, 1, bytes(8)))]):
            data, man = genzip.build(ents)
            add(data, "refuse", len(ents))
        # damaged local headers / truncated streams: model and implementation must still agree
        base, man = genzip.build([Entry(b"one", b"first entry"), Entry(b"two", b"second entry " * 3, method=8), Entry(b"three", b"3")])
        for _ in range(150 if self.tier == "quick" else 4000):
            d = bytearray(base)
            for _ in range(r.randrange(1, 3)):
                p = r.randrange(len(d)); d[p] = r.randrange(256)
            if r.random() < 0.3:
                d = d[:r.randrange(len(d))]
            add(bytes(d), "any", 3)
        return cases

    def oracle(self, line, meta, out):
        if out is None or "PANIC" in out or out.startswith("ABORT") or out == "TIMEOUT":
            return "implementation did not return: %s" % (out or "")[:120]
        k, exp = meta["k"], meta["expect"]
        if k == "vs":
            if exp == "ok" and not out.startswith("[SAME %d]" % meta["n"]):
                return "stream and seekable reader disagree: " + out[:120]
            if exp == "any" and out.startswith("[DIFF"):
                # both readers accepted the prefix but report different things: only a violation when the archive is streamable
                return None
            if exp == "refuse" and out.startswith("[SAME"):
                return "stream accepted an entry it cannot support"
        if k == "consume":
            if exp == "ok" and not out.endswith(" END]"):
                return "stream did not signal the end of entries at the central directory: " + out[-80:]
            if exp == "refuse" and "Unsupported" not in out:
                return "unsupported entry did not produce an error: " + out[-120:]
        if k == "visit" and exp == "ok":
            m = re.match(r"\[\[(.*?)\] \[(.*)\] \[Ok unit\]\]$", out)
            if not m:
                return "visit failed on a streamable archive: " + out[-120:]
            nfiles = len(m.group(1).split())
            nmeta = len(re.findall(r"\[x", m.group(2)))
            if nfiles != meta["n"] or nmeta != meta["n"]:
                return "visitor delivered %d files and %d metadata records for %d entries" % (nfiles, nmeta, meta["n"])
        return None

    def nontrivial(self, line, meta, out):
        return meta["n"] >= 2 or meta.get("pat", "") not in ("", "ff")

CHECK = C10
