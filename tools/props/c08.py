"""C08 — archives beyond the 16/32-bit limits stay correct (ZIP64)."""
import binascii, struct, zlib
import genzip, strictzip
from genzip import Entry
from zvlib import Check, run_lines, _parse_obs

def hexs(b):
    return "x" + b.hex()

# ---- CRC-32 of long zero runs without touching the bytes (zlib's crc32_combine)
def _gf2_times(mat, vec):
    s, i = 0, 0
    while vec:
        if vec & 1:
            s ^= mat[i]
        vec >>= 1
        i += 1
    return s
def _gf2_square(mat):
    return [_gf2_times(mat, mat[n]) for n in range(32)]
def crc32_combine(crc1, crc2, len2):
    if len2 <= 0:
        return crc1
    odd = [0xedb88320] + [1 << n for n in range(31)]
    even = _gf2_square(odd)
    odd = _gf2_square(even)
    while True:
        even = _gf2_square(odd)
        if len2 & 1:
            crc1 = _gf2_times(even, crc1)
        len2 >>= 1
        if not len2:
            break
        odd = _gf2_square(even)
        if len2 & 1:
            crc1 = _gf2_times(odd, crc1)
        len2 >>= 1
        if not len2:
            break
    return crc1 ^ crc2
_zc = {}
def crc_zeros(n):
    """CRC-32 of n zero bytes"""
    if n <= 1 << 16:
        return zlib.crc32(bytes(n))
    if n not in _zc:
        h = n // 2
        c = crc32_combine(crc_zeros(h), crc_zeros(h), h)
        if n % 2:
            c = crc32_combine(c, zlib.crc32(b"\0"), 1)
        _zc[n] = c
    return _zc[n]
def crc_content(size, first):
    if size == 0:
        return 0
    return crc32_combine(zlib.crc32(bytes([first])), crc_zeros(size - 1), size - 1)

class SparseBytes:
    """bytes-like view of (total length, non-zero extents) supporting len() and slicing"""
    def __init__(self, n, extents):
        self.n, self.ext = n, sorted(extents)
    def __len__(self):
        return self.n
    def __getitem__(self, k):
        if isinstance(k, int):
            return self[k:k + 1][0]
        a, b, _ = k.indices(self.n)
        if b <= a:
            return b""
        if b - a > 1 << 28:
            raise MemoryError("slice of %d bytes from a sparse archive" % (b - a))
        out = bytearray(b - a)
        for o, v in self.ext:
            lo, hi = max(o, a), min(o + len(v), b)
            if lo < hi:
                out[lo - a:hi - a] = v[lo - o:hi - o]
        return bytes(out)
    def nonzero(self):
        return sum(sum(1 for x in v if x) for _, v in self.ext)

G = 1 << 32

class C08(Check):
    pid = "C08"
    rule = ("writer over a sparse in-memory sink: one stored entry of zero bytes (optionally a non-zero first byte) of size "
            "{2^32-2, 2^32-1, 2^32, 2^32+1, 5 GiB} x large_file {false,true} x archive comment; a following small entry whose "
            "header offset is exactly {2^32-2, 2^32-1, 2^32, 2^32+1}; entry counts {65534, 65535, 65536, 65537}; all through "
            "1 MiB writes (thorough: also 1-byte-off chunkings and a deflated 4 GiB+1 entry).  Every header the crate emitted is "
            "compared with the model's header writers (local, central, end records) placed by the layout arithmetic; the "
            "crate's reader re-opens the sparse archive, lists and fully reads the entries (CRC verified); an independent "
            "parser validates the sparse archive; over-long non-large entries must fail and must not finish.  Reader: foreign "
            "archives with ZIP64 values forced on small files in all 2^3 field subsets x local/central x forced end records "
            "(model and crate compared), and hand-packed sparse foreign archives with genuinely huge sizes/offsets in each "
            "allowed ZIP64 extra layout.  non-trivial = a value at or beyond a 16/32-bit limit; distinct = distinct output")
    trusted = ["tools/genzip.py reference builder", "tools/strictzip.py", "pure-Python crc32_combine for CRCs of long zero runs (checked against zlib on short runs)"]
    assumptions = ["a central directory larger than 4 GiB is not realised (would need > 8 GiB of resident names); that boundary is covered by the theorem only"]

    def big_line(self, entries, comment=b"", chunk=1 << 20, verify=1 << 40):
        parts = ["bigw %d %s %d" % (chunk, hexs(comment), verify)]
        for (name, size, large, method, first, repeat) in entries:
            parts.append("%s %d %d %d %d %d" % (hexs(name), size, 1 if large else 0, method, first, repeat))
        return " ".join(parts)

    def gen(self):
        r = self.rng
        cases = []
        assert crc_content(100000, 7) == zlib.crc32(b"\7" + bytes(99999))
        sizes = [G - 2, G - 1, G, G + 1, 5 * (1 << 30)]
        for S in sizes:
            for large in (False, True):
                for comment in ((b"",) if S != G else (b"", b"zip64 comment")):
                    ents = [(b"a", S, large, 0, 7 if S % 2 else 0, 1), (b"b", 5, False, 0, 9, 1)]
                    cases.append((self.big_line(ents, comment), dict(k="bigw", ents=ents, comment=comment, impl_only=True)))
        # a COMPRESSED entry not declared large whose LAST write takes it past the limit (only the write-time check
        # can refuse it: the compressed size stays small)
        for S, chunk in ((G, 1 << 20),) if self.tier == "quick" else ((G, 1 << 20), (G, 1 << 28), (G + (1 << 20) - 1, 1 << 20)):
            ents = [(b"dz", S, False, 8, 0, 1)]
            cases.append((self.big_line(ents, b"", chunk), dict(k="bigw", ents=ents, comment=b"", impl_only=True)))
        # header offset of the second entry exactly at the boundary
        for target in (G - 2, G - 1, G, G + 1):
            hdr = 30 + 3 + 20
            ents = [(b"pad", target - hdr, True, 0, 0, 1), (b"x", 3, False, 0, 1, 1), (b"y", 0, False, 0, 0, 1)]
            cases.append((self.big_line(ents), dict(k="bigw", ents=ents, comment=b"", impl_only=True)))
        # central directory offset exactly at the boundary (directory starts right after the last entry)
        for target in (G - 1, G, G + 1):
            hdr = 30 + 3 + 20
            ents = [(b"pad", target - hdr, True, 0, 0, 1)]
            cases.append((self.big_line(ents), dict(k="bigw", ents=ents, comment=b"", impl_only=True)))
        for cnt in ((65535, 65536) if self.tier == "quick" else (65534, 65535, 65536, 65537, 70001)):
            ents = [(b"e", 0, False, 0, 0, cnt)]
            cases.append((self.big_line(ents, b"many"), dict(k="bigw", ents=ents, comment=b"many", impl_only=True)))
        if self.tier == "thorough":
            for S in (G - 1, G, G + 1):
                for chunk in ((1 << 20) - 1, (1 << 16) + 1, 1 << 30):
                    for large in (False, True):
                        ents = [(b"a", S, large, 0, 0, 1)]
                        cases.append((self.big_line(ents, b"", chunk), dict(k="bigw", ents=ents, comment=b"", impl_only=True)))
            ents = [(b"d", G + 1, True, 8, 0, 1), (b"after", 4, False, 0, 2, 1)]
            cases.append((self.big_line(ents), dict(k="bigw-deflate", ents=ents, comment=b"", impl_only=True)))
            ents = [(b"e", 0, False, 0, 0, 70000), (b"pad", G, True, 0, 0, 1), (b"z", 1, False, 0, 3, 1)]
            cases.append((self.big_line(ents), dict(k="bigw", ents=ents, comment=b"", impl_only=True)))
        # ---- reader: ZIP64 forced on small files (full model)
        txt = b"zip64 on a small file " * 3
        fields = ("usize", "csize", "offset")
        n = 0
        for mask in range(8):
            z = tuple(f for i, f in enumerate(fields) if mask >> i & 1)
            for zl in (False, True):
                for fz in (False, True):
                    for method in (0, 8):
                        ents = [Entry(b"first", b"1"), Entry(b"z64-%d" % mask, txt, method=method, z64=z, z64_local=zl,
                                                             extra_central=(struct.pack("<HH", 0xbeef, 2) + b"ab") if n % 3 == 0 else b""),
                                Entry(b"last", b"3", z64=z if n % 2 else ())]
                        data, _ = genzip.build(ents, force_z64=fz, comment=b"c" if n % 5 == 0 else b"")
                        for idx in range(3):
                            cases.append(("entry %s %d 0 x 4096" % (hexs(data), idx), dict(k="forced", content=[b"1", txt, b"3"][idx].hex())))
                        cases.append(("open %s" % hexs(data), dict(k="forced-open")))
                        n += 1
        # ---- reader: hand-packed sparse foreign archives with huge values
        for S in (G - 1, G, G + 1, 5 * (1 << 30)):
            for pre in (0, G):
                for layout in ("min", "all", "after-other"):
                    cases.append(self.foreign_sparse(S, pre, layout))
        # ---- raw copies of foreign entries whose sizes straddle the limit independently (compressed > 4 GiB with a
        #      small uncompressed size and vice versa can only be produced this way without materialising the data)
        vals = (100, G - 2, G - 1, G, G + 1)
        for us in vals:
            for cs in vals:
                if us == cs == 100:
                    continue
                ents = [(b"first", 3, 3, 0), (b"odd", us, cs, 8 if us != cs else 0), (b"after", 2, 2, 0)]
                cases.append(self.foreign_sparse(0, 0, "min", op="bigcopy", ents=ents, verify=1 << 20))
        # sources whose central ZIP64 blocks carry all three fields (some of them not needed): the copied record keeps
        # the source's extra field, stale ZIP64 block included, BEHIND the block the writer computes; a reader takes the first
        for us, cs in ((G + 1, G + 1), (100, G + 1), (G + 1, 100)):
            ents = [(b"first", 3, 3, 0), (b"odd", us, cs, 8 if us != cs else 0), (b"after", 2, 2, 0)]
            cases.append(self.foreign_sparse(0, 0, "all", op="bigcopy", ents=ents, verify=1 << 20))
            cases.append(self.foreign_sparse(0, 0, "after-other", op="bigcopy", ents=ents, verify=1 << 20))
        # ---- small entries declared large_file: the local ZIP64 block is patched when the entry is closed (original size
        #      first, compressed size second); byte-exact against the writer model, and read back through the local headers
        import wprog
        from wprog import Opts
        progs = []
        for m in (0, 8, 12, 93):
            for pw in (None, b"pw"):
                progs.append([("file", b"lf-%d" % m, Opts(method=m, large=True, pw=pw)), ("write", b"large_file on a small entry " * 40),
                              ("file", b"next", Opts()), ("write", b"n"), ("finish",)])
        progs.append([("extra", b"lfx", Opts(method=8, large=True)), ("endextra",), ("write", b"e" * 500), ("finish",)])
        progs.append([("aligned", b"lfa", Opts(method=8, large=True), 64), ("write", b"a" * 500), ("finish",)])
        lines, outs = wprog.with_tables(self.exes["debug"], [dict(ops=o) for o in progs])
        for l, o, ops in zip(lines, outs, progs):
            cases.append((l, dict(k="lf-prog")))
            _, data = wprog.final_bytes(o)
            if data and not any(op[0] == "file" and op[2].pw for op in ops):
                cases.append(("stream_vs_seek %s x" % hexs(data), dict(k="lf-stream", impl_only=True)))
        # ---- append to sparse foreign archives beyond 4 GiB whose central ZIP64 blocks carry more fields than needed:
        #      the re-emitted records keep the old extra field (stale block included) behind the block the writer computes
        for S, pre in ((G + 1, 0), (100, G + 5), (G + 1, G)):
            for layout in ("min", "all", "after-other"):
                line, meta = self.foreign_sparse(S, pre, layout, op="bigappend", verify=1 << 20)
                cases.append((line, dict(meta, k="bigappend")))
        return cases

    def foreign_sparse(self, S, pre, layout, op="bigr", ents=None, verify=1 << 40):
        """[pre zero bytes as a first stored entry 'p'] + entry 'big' of S zero bytes (or the explicit list
        ents = [(name, usize, csize, method)]); ZIP64 fields per APPNOTE 4.5.3: only for escaped fields ('min'), or all
        three escaped ('all'), optionally after another extra record"""
        ext = []
        pos = 0
        recs = []
        def local(name, us, cs, crc, method):
            big = max(us, cs) >= 0xffffffff
            ex = struct.pack("<HHQQ", 1, 16, us, cs) if big else b""
            h = struct.pack("<IHHHHHIIIHH", 0x04034b50, 45 if big else 20, 0, method, 0, 0x21, crc, 0xffffffff if big else cs,
                            0xffffffff if big else us, len(name), len(ex)) + name + ex
            return h
        if ents is None:
            ents = ([(b"p", pre, pre, 0)] if pre else []) + [(b"big", S, S, 0)]
        for name, us, cs, method in ents:
            crc = crc_zeros(us) if method == 0 else 0x12345678
            h = local(name, us, cs, crc, method)
            ext.append((pos, h))
            recs.append((name, us, cs, crc, pos, method))
            pos += len(h) + cs
        cd_start = pos
        cd = b""
        for name, us, cs, crc, off, method in recs:
            esc_u = us >= 0xffffffff or layout == "all"
            esc_c = cs >= 0xffffffff or layout == "all"
            esc_o = off >= 0xffffffff or layout == "all"
            body = b""
            if esc_u:
                body += struct.pack("<Q", us)
            if esc_c:
                body += struct.pack("<Q", cs)
            if esc_o:
                body += struct.pack("<Q", off)
            ex = (struct.pack("<HH", 1, len(body)) + body) if body else b""
            if layout == "after-other":
                ex = struct.pack("<HH", 0x5455, 5) + b"\x01abcd" + ex
            cd += struct.pack("<IHHHHHHIIIHHHHHII", 0x02014b50, (3 << 8) | 45, 45 if body else 20, 0, method, 0, 0x21, crc,
                              0xffffffff if esc_c else cs, 0xffffffff if esc_u else us, len(name), len(ex), 0, 0, 0, 0o100644 << 16,
                              0xffffffff if esc_o else off) + name + ex
        ext.append((cd_start, cd))
        pos = cd_start + len(cd)
        tail = struct.pack("<IQHHIIQQQQ", 0x06064b50, 44, 45, 45, 0, 0, len(recs), len(recs), len(cd), cd_start)
        tail += struct.pack("<IIQI", 0x07064b50, 0, pos, 1)
        tail += struct.pack("<IHHHHIIH", 0x06054b50, 0, 0, len(recs), len(recs), min(len(cd), 0xffffffff), min(cd_start, 0xffffffff), 0)
        ext.append((pos, tail))
        total = pos + len(tail)
        line = "%s %d %d " % (op, total, verify) + " ".join("%d %s" % (o, hexs(v)) for o, v in ext)
        return (line, dict(k="foreign-sparse" if op == "bigr" else "copy", impl_only=True,
                           recs=[(n.hex(), u, c, crc, o, m) for n, u, c, crc, o, m in recs], layout=layout))

    # ---- model header writers
    def model_hdr(self, name, method, crc, cs, us, hs, large):
        key = (name, method, crc, cs, us, hs, large)
        return "c08hdr %s %d %d %d %d %d %d %d" % (hexs(name), method, crc, cs, us, hs, 1 if large else 0, 0o100644)

    def oracle(self, line, meta, out):
        if out is None or "PANIC" in out or out.startswith("ABORT") or out == "TIMEOUT":
            return "panic or process death: %s" % (out or "")[:200]
        k = meta["k"]
        if k == "lf-prog":
            import wprog
            calls, data = wprog.final_bytes(out)
            if not data or any(not (isinstance(c, list) and c[0] == "Ok") for c in (calls or [])):
                return "a legal large_file program failed: " + out[:120]
            _, problems = strictzip.validate(data)
            if problems:
                return "archive with large_file entries is not valid: " + "; ".join(problems[:3])
            return None
        if k == "lf-stream":
            if not out.startswith("[SAME"):
                return "large_file entries read through their local headers differ from the directory: " + out[:160]
            return None
        if k == "bigappend":
            p = _parse_obs(out)
            if not p or not isinstance(p[0], list) or len(p[0]) != 3:
                return "unexpected output " + out[:160]
            before, calls, after = p[0]
            if not isinstance(before, list) or (before and before[0] == "OpenErr"):
                return None      # the crate does not read this foreign layout in the first place (judged by the bigr cases)
            if any(not (isinstance(c, list) and c[0] == "Ok") for c in calls) or not calls:
                return "appending to a readable > 4 GiB archive failed: %s" % (calls,)
            if not isinstance(after, list) or (after and after[0] in ("OpenErr", "FinishErr")):
                return "the appended archive cannot be finished / re-opened: %s" % (after,)
            # listing = [count comment [entries...]] ; every old entry must be listed exactly as before
            try:
                b_ents, a_ents = before[-1], after[-1]
            except Exception:
                return "unexpected listing"
            if len(a_ents) != len(b_ents) + 1:
                return "expected %d old + 1 new entries, got %d" % (len(b_ents), len(a_ents))
            for x, y in zip(b_ents, a_ents):
                if x != y:
                    return "old entry changed by the append: %s -> %s" % (x, y)
            last = a_ents[-1]
            if not (isinstance(last, list) and last[1] == "x617070656e646564" and last[-2] == "eof"):
                return "the appended entry does not read back: %s" % (last,)
            return None
        if k == "forced":
            m = _parse_obs(out)
            if not m or m[0][0] != "Ok":
                return "entry of a valid ZIP64-forced archive not readable: " + out[:120]
            if m[0][2][1] != "x" + meta["content"]:
                return "content differs on ZIP64-forced archive"
            return None
        if k == "forced-open":
            return None if out.startswith("[Ok") else "valid ZIP64-forced archive rejected: " + out[:100]
        p = _parse_obs(out)
        if not p:
            return "unparsable output " + out[:100]
        if k == "foreign-sparse":
            rb = p[0]
            if rb[0] != "Ok":
                return "foreign ZIP64 archive rejected: " + out[:160]
            ents = rb[4]
            if int(rb[1]) != len(meta["recs"]):
                return "entry count %s, expected %d" % (rb[1], len(meta["recs"]))
            for e, (nm, us, cs, crc, off, method) in zip(ents, meta["recs"]):
                if e[1] != "x" + nm or int(e[2]) != us or int(e[3]) != cs or int(e[4]) != crc or int(e[5]) != off:
                    return "foreign entry decoded as %s, expected size %d csize %d crc %d offset %d (layout %s)" % (e[:7], us, cs, crc, off, meta["layout"])
                if method == 0 and (e[-2] != "eof" or int(e[-3]) != us):
                    return "foreign entry did not read back completely: %s" % (e[7:],)
            return None
        if k == "copy":
            calls, fin, rb = p[0]
            if fin[0] != "Ok" or any(c[0] != "Ok" for c in calls):
                return "raw copy of a foreign ZIP64 entry failed: %s %s" % (calls, fin[:1])
            total = int(fin[1])
            sp = SparseBytes(total, [(int(o), bytes.fromhex(v[1:])) for o, v in fin[2]])
            pos = 0
            reqs, lay = [], []
            for (nm, us, cs, crc, off, method) in meta["recs"]:
                nmb = bytes.fromhex(nm)
                large = max(us, cs) > 0xffffffff
                reqs.append("c08hdr %s %d %d %d %d %d %d %d" % (hexs(nmb), method, crc, cs, us, pos, 1 if large else 0, 0o100644))
                lay.append((nmb, us, cs, crc, pos, large))
                pos += 30 + len(nmb) + (20 if large else 0) + cs
            mouts = run_lines(self.model, reqs, shards=1, ulimit_stack=True)
            cdl = []
            for (nmb, us, cs, crc, hs, large), mo in zip(lay, mouts):
                q = _parse_obs(mo)[0]
                if q[0][0] != "Ok" or q[1][0] != "Ok":
                    return "model header writer failed: " + mo[:100]
                lh = bytes.fromhex(q[0][1][1:])
                if sp[hs:hs + len(lh)] != lh:
                    return "local header of the copy of %r differs from the model: %s vs %s" % (nmb, sp[hs:hs + len(lh)].hex(), lh.hex())
                cdl.append(bytes.fromhex(q[1][1][1:]))
            cd = b"".join(cdl)
            endr = run_lines(self.model, ["c08end %d %d %d x" % (len(lay), pos, len(cd))], shards=1)[0]
            tail = cd + bytes.fromhex(endr[1:])
            if total != pos + len(tail) or sp[pos:total] != tail:
                return "directory of the copy differs from the model: %s vs %s" % (sp[pos:total].hex()[:400], tail.hex()[:400])
            if rb[0] != "Ok":
                return "the crate cannot re-open the copy: %s" % (rb,)
            for e, (nmb, us, cs, crc, hs, large) in zip(rb[4], lay):
                if e[1] != "x" + nmb.hex() or int(e[2]) != us or int(e[3]) != cs or int(e[4]) != crc or int(e[5]) != hs:
                    return "copied entry re-read as %s, expected size %d csize %d crc %d offset %d" % (e[:7], us, cs, crc, hs)
            return None
        # ---- writer cases
        calls, fin, rb = p[0]
        ents = meta["ents"]
        # expected per-entry outcome
        exp = []
        pos = 0
        ok_all = True
        flat = []
        for (name, size, large, method, first, repeat) in ents:
            for rep in range(repeat):
                nm = name + (b"%d" % rep if repeat > 1 else b"")
                flat.append((nm, size, large, method, first))
        too_big = [(not large) and size > 0xffffffff for (_, size, large, _, _) in flat]
        if any(too_big):
            if fin[0] == "Ok":
                return "more than 4 GiB written into an entry not declared large, yet finish() returned an archive"
            if not any(isinstance(c, list) and c[0] == "Err" for c in calls):
                return "no call reported the over-long non-large entry"
            return None
        if fin[0] != "Ok":
            return "finish failed on a legal program: %s %s" % (fin, calls[:4])
        if meta["k"] == "bigw-deflate":
            ents_rb = rb[4]
            e = ents_rb[0]
            if int(e[2]) != flat[0][1] or e[-2] != "eof" or int(e[-3]) != flat[0][1]:
                return "deflated >4 GiB entry did not round-trip: %s" % (e,)
            return None
        total = int(fin[1])
        sp = SparseBytes(total, [(int(o), bytes.fromhex(v[1:])) for o, v in fin[2]])
        # model-predicted skeleton
        reqs = []
        layout = []
        for (nm, size, large, method, first) in flat:
            crc = crc_content(size, first)
            layout.append((nm, size, large, crc, pos, first))
            reqs.append(self.model_hdr(nm, 0, crc, size, size, pos, large))
            pos += 30 + len(nm) + (20 if large else 0) + size
        cd_start = pos
        mouts = run_lines(self.model, reqs, shards=1 if len(reqs) < 2000 else 16, ulimit_stack=True)
        cdl = []
        nz = 0
        # the same headers with sizes still unknown, as start_file writes them (for the version field)
        m0 = run_lines(self.model, [self.model_hdr(nm, 0, 0, 0, 0, hs, large) for (nm, size, large, crc, hs, first) in layout],
                       shards=1 if len(reqs) < 2000 else 16, ulimit_stack=True)
        for (nm, size, large, crc, hs, first), mo, mz in zip(layout, mouts, m0):
            v0 = bytes.fromhex(_parse_obs(mz)[0][0][1][1:])[4:6]
            q = _parse_obs(mo)[0]
            if q[0][0] != "Ok" or q[1][0] != "Ok":
                return "model header writer failed: " + mo[:100]
            lh = bytes.fromhex(q[0][1][1:])
            # the local header is written when the sizes are still unknown (version needed computed from 0) and only
            # CRC and sizes are patched afterwards: the version field keeps its first value
            lh = lh[:4] + v0 + lh[6:]
            # the local header is written before the sizes are known and patched afterwards: compare the final bytes
            got = sp[hs:hs + len(lh)]
            if got != lh:
                return "local header of %r at %d differs from the model: %s vs %s" % (nm, hs, got.hex(), lh.hex())
            nz += sum(1 for x in lh if x) + (1 if first and size else 0)
            if first and size and sp[hs + len(lh)] != first:
                return "content of %r misplaced" % nm
            cdl.append(bytes.fromhex(q[1][1][1:]))
        cd = b"".join(cdl)
        endr = run_lines(self.model, ["c08end %d %d %d %s" % (len(flat), cd_start, len(cd), hexs(meta["comment"]))], shards=1)[0]
        tail = cd + bytes.fromhex(endr[1:])
        if total != cd_start + len(tail):
            return "archive length %d, model predicts %d" % (total, cd_start + len(tail))
        if sp[cd_start:total] != tail:
            g = sp[cd_start:total]
            i = next(i for i in range(len(tail)) if g[i] != tail[i])
            return "central directory / end records differ from the model at +%d: %s vs %s" % (i, g[max(0, i - 8):i + 24].hex(), tail[max(0, i - 8):i + 24].hex())
        nz += sum(1 for x in tail if x)
        if sp.nonzero() != nz:
            return "the sink holds %d non-zero bytes, the model predicts %d (stray bytes)" % (sp.nonzero(), nz)
        # the crate's reader on the sparse archive
        if rb[0] != "Ok":
            return "the crate cannot re-open its own ZIP64 archive: %s" % (rb,)
        if int(rb[1]) != len(flat):
            return "re-opened archive lists %s entries, %d were written" % (rb[1], len(flat))
        if rb[3] != "x" + meta["comment"].hex():
            return "comment lost"
        for e in rb[4]:
            i = int(e[0])
            nm, size, large, crc, hs, first = layout[i]
            if e[1] != "x" + nm.hex() or int(e[2]) != size or int(e[3]) != size or int(e[4]) != crc or int(e[5]) != hs:
                return "entry %d re-read as %s, expected name %r size %d crc %d offset %d" % (i, e[:7], nm, size, crc, hs)
            if int(e[6]) != hs + 30 + len(nm) + (20 if large else 0):
                return "data start of entry %d is %s" % (i, e[6])
            if e[-2] != "eof" or int(e[-3]) != size or (e[-1] == "true"):
                return "entry %d did not read back as %d zero bytes: %s" % (i, size, e[7:])
        # independent parser
        if len(flat) <= 70000:
            listing, problems = strictzip.validate(sp, max_payload=1 << 24)
            if problems:
                return "independent parser rejects the ZIP64 archive: " + "; ".join(problems[:3])
            for le, (nm, size, large, crc, hs, first) in zip(listing["entries"], layout):
                if (le["name"], le["usize"], le["csize"], le["crc"], le["header_start"]) != (nm, size, size, crc, hs):
                    return "independent parser decodes entry %r differently" % nm
        return None

    def nontrivial(self, line, meta, out):
        return True

CHECK = C08
