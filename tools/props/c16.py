"""C16 — WinZip-AES entries decrypt correctly and tampering is detected."""
import hashlib, re
import genzip
from genzip import Entry
from zvlib import Check, run_lines
from props.c04 import parse_entry_out

def hexs(b):
    return "x" + b.hex()

KLEN = {1: 16, 2: 24, 3: 32}

class C16(Check):
    pid = "C16"
    rule = ("containers from the independent encryptor (tools/genzip.py: pure-Python AES pinned by FIPS-197, hashlib "
            "PBKDF2/HMAC) for all (version AE-1/AE-2, strength 128/192/256, inner method stored/deflate/bzip2) x content "
            "lengths {0,1,15,16,17,31,32,33,4101} x passwords; every single-bit flip of salt, verifier, ciphertext and "
            "authentication code of entries <= 48 bytes; truncated ciphertext/MAC (entry moved to the end of the file); "
            "wrong CRC under AE-1 vs AE-2; no password; wrong password; the repo's aes_archive.zip.  The model executes "
            "Gallina AES/HMAC-SHA1 (RFC/FIPS vectors proved as Examples) with the PBKDF2 output supplied by hashlib, "
            "and Gallina PBKDF2 itself is compared with hashlib.  non-trivial = tampered or non-default container; "
            "distinct = distinct output")
    trusted = ["tools/genzip.py AES (FIPS-197 vectors), CPython hashlib/hmac"]
    assumptions = ["HMAC-SHA1-80 unforgeability: 'any change is detected' is proved as 'a completed read verified the MAC over the received ciphertext' (C16_sound)",
                   "the derived key is supplied to the model by hashlib in bulk cases; Gallina PBKDF2 is cross-checked separately"]

    def dk_for(self, data, man_entry, pw, strength):
        klen = KLEN[strength]
        ds = man_entry["data_start"]
        salt = data[ds:ds + klen // 2]
        return hashlib.pbkdf2_hmac("sha1", pw, salt, 1000, 2 * klen + 2)

    def gen(self):
        r = self.rng
        cases = []
        def add(data, m, pw, strength, kind, content, ae2, bs=None, idx=0):
            dk = self.dk_for(data, m, pw, strength)
            b = bs if bs is not None else r.choice([1, 7, 16, 4096])
            cases.append(("aes_entry %s %d %s %s %d" % (hexs(data), idx, hexs(pw), hexs(dk), b),
                          dict(kind=kind, content=content.hex(), ae2=ae2, n=len(content))))
        lens = [0, 1, 15, 16, 17, 31, 32, 33, 4101]
        for ver in (1, 2):
            for strength in (1, 2, 3):
                for method in (0, 8, 12):
                    for ln in (lens if self.tier == "thorough" else r.sample(lens, 4)):
                        content = bytes(r.randrange(256) for _ in range(ln)) if method == 0 else (b"compressible " * (ln // 13 + 1))[:ln]
                        pw = r.choice([b"pw", b"", b"\x00\xffbin", b"long password " * 20])
                        salt = bytes(r.randrange(256) for _ in range(KLEN[strength] // 2))
                        e = Entry(b"a", content, method=method, password=pw, aes=(ver, strength, salt))
                        data, man = genzip.build([Entry(b"pre", b"plain"), e, Entry(b"post", b"tail", method=8)])
                        m = man["entries"][1]
                        add(data, m, pw, strength, "intact", content, ver == 2, idx=1)
                        # the same entry through a source that returns short reads (BufReader-like refills)
                        k = r.choice([1, 3, 7, 16, 33])
                        cases.append(("entry_sched %s 1 1 %s %s %s 1" % (hexs(data), hexs(pw), hexs(bytes([k]) * min(65535, 4 * len(data) // k + 64)), hexs(bytes([r.choice([1, 5, 64])]))),
                                      dict(kind="chunked", content=content.hex(), ae2=ver == 2, n=ln, impl_only=True)))
                        add(data, m, pw + b"x", strength, "wrongpw", content, ver == 2, idx=1)
                        cases.append(("entry %s 1 0 x 64" % hexs(data), dict(kind="nopw", content=content.hex(), ae2=ver == 2, n=ln)))
        # exhaustive bit flips on small entries
        for ver, strength, ln in ((1, 1, 20), (2, 3, 33), (2, 2, 1), (1, 3, 16)) if self.tier == "quick" else [(v, s, l) for v in (1, 2) for s in (1, 2, 3) for l in (1, 16, 33, 48)]:
            content = bytes(r.randrange(256) for _ in range(ln))
            salt = bytes(range(KLEN[strength] // 2))
            data, man = genzip.build([Entry(b"t", content, password=b"pw", aes=(ver, strength, salt))])
            m = man["entries"][0]
            ds, de = m["data_start"], m["data_start"] + m["csize"]
            for p in range(ds, de):
                for bit in range(8):
                    d = bytearray(data); d[p] ^= 1 << bit
                    region = "salt" if p < ds + len(salt) else "verifier" if p < ds + len(salt) + 2 else "mac" if p >= de - 10 else "ct"
                    add(bytes(d), m, b"pw", strength, "flip-" + region, content, ver == 2)
            # wrong CRC under AE-1 (must fail) vs AE-2 (ignored)
            d = bytearray(data); cs = m["central_start"]; d[cs + 16] ^= 0xff
            add(bytes(d), m, b"pw", strength, "crc-ae%d" % ver, content, ver == 2)
            # truncation: entry moved behind the end record, ciphertext / MAC cut short (D16)
            local = data[m["header_start"]:m["data_start"]]
            payload = data[ds:de]
            cd0 = data.find(b"PK\x01\x02"); eo = data.rfind(b"PK\x05\x06")
            cd = bytearray(data[cd0:eo])
            import struct
            for keep in sorted(set([len(payload), len(payload) - 1, len(payload) - 10, len(payload) - 11, len(salt) + 2 + 1, len(salt) + 2])):
                if keep < len(salt) + 2:
                    continue
                cd2 = bytearray(cd); cd2[42:46] = struct.pack("<I", len(cd) + 22)
                f = bytes(cd2) + struct.pack("<IHHHHIIH", 0x06054b50, 0, 0, 1, 1, len(cd2), 0, 0) + local + payload[:keep]
                m2 = dict(m); m2["data_start"] = len(cd) + 22 + len(local)
                add(f, m2, b"pw", strength, "intact" if keep == len(payload) else "truncated", content, ver == 2)
        # exhaustive bit flips on the ciphertext of small COMPRESSED AE-2 entries (CRC ignored): a flipped bit may make the
        # inner stream end early (end-of-block, final-block bit), so that the decoder never asks the AES layer for more --
        # the authentication code must be checked all the same before end-of-file is reported (implementation only)
        import zlib
        text = b"It was a bright cold day in April, and the clocks were striking thirteen. " * 2
        co = zlib.compressobj(9, zlib.DEFLATED, -15)
        two_blocks = co.compress(b"hello ") + co.flush(zlib.Z_FULL_FLUSH) + co.compress(b"world, hello world") + co.flush()
        for ver, strength, content, payload in ((2, 1, text, None), (2, 3, b"hello world, hello world", two_blocks), (1, 2, text[:40], None)):
            salt = bytes(range(KLEN[strength] // 2))
            data, man = genzip.build([Entry(b"t", content, method=8, payload=payload, password=b"pw", aes=(ver, strength, salt))])
            m = man["entries"][0]
            ds, de = m["data_start"], m["data_start"] + m["csize"]
            dk = self.dk_for(data, m, b"pw", strength)
            cases.append(("aes_entry %s 0 %s %s 4096" % (hexs(data), hexs(b"pw"), hexs(dk)), dict(kind="intact", content=content.hex(), ae2=ver == 2, n=len(content), impl_only=True)))
            spots = range(ds + len(salt) + 2, de)
            for p_ in (spots if self.tier == "thorough" or ver == 2 else list(spots)[::3]):
                for bit in range(8):
                    d = bytearray(data); d[p_] ^= 1 << bit
                    cases.append(("aes_entry %s 0 %s %s %d" % (hexs(bytes(d)), hexs(b"pw"), hexs(dk), r.choice([1, 7, 4096])),
                                  dict(kind="flip-" + ("mac" if p_ >= de - 10 else "ct-deflated"), content=content.hex(), ae2=ver == 2, n=len(content), impl_only=True)))
        # the repo's own fixture
        try:
            fx = open("/repo/tests/data/aes_archive.zip", "rb").read()
            import struct
            i = 0; idx = 0
            for nm, strength in ((b"secret_data_128", 1), (b"secret_data_192", 2), (b"secret_data_256", 3), (b"secret_data_256_uncompressed", 3)):
                p = fx.find(b"PK\x03\x04", i)
                nl, el = struct.unpack("<HH", fx[p + 26:p + 30])
                ds = p + 30 + nl + el
                cases.append(("aes_entry %s %d %s %s 64" % (hexs(fx), idx, hexs(b"helloworld"), hexs(self.dk_for(fx, dict(data_start=ds), b"helloworld", strength))),
                              dict(kind="fixture", content=None, ae2=True, n=1)))
                i = p + 4; idx += 1
        except OSError:
            pass
        return cases

    def oracle(self, line, meta, out):
        if out is None or "PANIC" in out or out.startswith("ABORT") or out == "TIMEOUT":
            return "implementation did not return: %s" % (out or "")[:120]
        kind = meta["kind"]
        k, m, rd = parse_entry_out(out)
        got = None
        if k == "Ok":
            mm = re.match(r"\[Ok x([0-9a-f]*)\]", rd or "")
            got = mm.group(1) if mm else None
        if kind == "nopw":
            return None if out == "[Err [Unsupported MPasswordRequired]]" else "no password: expected the password-required error, got " + out[:80]
        if kind == "chunked":
            if not out.startswith("[SAME "):
                return "short reads change the result: " + out[:160]
            mm = re.search(r"\[Ok x([0-9a-f]*)$", out.rstrip("]"))
            if not mm or mm.group(1) != meta["content"]:
                return "right password through a short-reading source did not yield the original bytes: " + out[-100:]
            return None
        if kind in ("intact", "fixture"):
            if got is None or (meta["content"] is not None and got != meta["content"]):
                return "right password did not yield the original bytes: " + out[-100:]
            return None
        if kind == "wrongpw":
            if got is not None and meta["n"] > 0:
                return "wrong password completed a read"
            return None
        if kind.startswith("flip-") or kind == "truncated":
            if got is not None and meta["n"] > 0:
                return "tampered entry (%s) read to completion and returned %s bytes" % (kind, "the original" if got == meta["content"] else "ALTERED")
            return None
        if kind == "crc-ae1":
            return "AE-1: wrong CRC not detected" if got is not None and meta["n"] > 0 else None
        if kind == "crc-ae2":
            return None if got == meta["content"] else "AE-2: the CRC field must be ignored, got " + out[-80:]
        return None

    def nontrivial(self, line, meta, out):
        return meta["kind"] != "nopw"

    def extra_checks(self, exes, model):
        # Gallina PBKDF2-HMAC-SHA1 against hashlib (few iterations always; the real 1000 in thorough)
        if not model:
            return []
        r = self.rng
        reqs = []
        for c, n in ((1, 20), (2, 34), (3, 66), (7, 50)) + (((1000, 66),) if self.tier == "thorough" else ()):
            pw = bytes(r.randrange(256) for _ in range(r.randrange(0, 70)))
            salt = bytes(r.randrange(256) for _ in range(r.choice([8, 12, 16])))
            reqs.append((pw, salt, c, n))
        outs = run_lines(model, ["kdf %s %s %d %d" % (hexs(pw), hexs(salt), c, n) for pw, salt, c, n in reqs], ulimit_stack=True, timeout=900)
        bad = []
        for (pw, salt, c, n), o in zip(reqs, outs):
            if (o or "")[1:] != hashlib.pbkdf2_hmac("sha1", pw, salt, c, n).hex():
                bad.append((dict(request="kdf %s %s %d %d" % (hexs(pw), hexs(salt), c, n), model=o), "Gallina PBKDF2 differs from hashlib"))
        self.notes.append("Gallina PBKDF2-HMAC-SHA1 vs hashlib: %d derivations, %d mismatches" % (len(reqs), len(bad)))
        return bad

CHECK = C16
