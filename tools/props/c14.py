"""C14 — raw copy transfers an entry bit-exactly without recompression."""
import io, struct, zipfile
import genzip, strictzip, wprog
from genzip import Entry
from wprog import Opts
from zvlib import Check, run_lines, _parse_obs
from props.c01 import C01, spec_entries

def hexs(b):
    return "x" + b.hex()

def rawlist(exe, datas):
    outs = run_lines(exe, ["rawlist " + hexs(d) for d in datas])
    res = []
    for o in outs:
        p = _parse_obs(o or "")
        if not p or not isinstance(p[0], list) or p[0][0] != "Ok":
            res.append(None)
            continue
        ents = []
        for e in p[0][2]:
            if isinstance(e, list) and e[0] == "Ok":
                ents.append(dict(meta=e[1], raw=e[2]))
            else:
                ents.append(None)
        res.append(dict(comment=p[0][1], entries=ents))
    return res

class C14(C01):
    pid = "C14"
    rule = ("source archives from the independent builder (methods stored/deflate/bzip2/zstd and undecodable codes 1, 9, 14, 98; "
            "empty entries; data-descriptor entries of all shapes; DOS and Unix made-by; modes 0..0o7777; ZIP64 extras forced; "
            "prefix; odd timestamps; non-ASCII names with and without the UTF-8 flag), from the crate's own writer (every method "
            "x level) and from CPython zipfile; programs interleave raw copies (kept name / renamed) with ordinary files, "
            "directories and symlinks; copy as first, last, only entry; the same entry copied repeatedly.  Compared: archive "
            "bytes with the writer model; oracle: destination payload bytes = source payload bytes (independent parser on "
            "both), method/CRC/sizes/DOS time equal, permission bits equal and by_index_raw of the crate agrees on source and "
            "destination, decodable payloads decode to the source content, neighbours carry what was written.  "
            "non-trivial = >= 1 successful raw copy; distinct = distinct archive bytes")
    trusted = ["tools/genzip.py, CPython zipfile as independent producers", "tools/strictzip.py as independent parser"]
    assumptions = []

    def sources(self):
        r = self.rng
        exe = self.exes["debug"]
        zs = run_lines(exe, ["zstd_compress %s 3" % hexs(b"zstd payload " * 9)], shards=1)[0]
        zst = bytes.fromhex(zs[1:])
        txt = b"The quick brown fox jumps over the lazy dog. " * 7
        S = []
        ents = [
            Entry(b"stored.txt", txt),
            Entry(b"defl.txt", txt, method=8, level=9),
            Entry(b"bz.txt", txt, method=12),
            Entry(b"zstd.bin", b"zstd payload " * 9, method=93, payload=zst),
            Entry(b"empty", b""),
            Entry(b"empty-defl", b"", method=8),
            Entry(b"lzma.bin", b"whatever", method=14, payload=bytes(range(40)), need=63),
            Entry(b"shrunk", b"abc", method=1, payload=b"\x01\x02\x03\x04"),
            Entry(b"defl64", b"abcd", method=9, payload=b"\x99" * 11),
            Entry(b"ppmd", b"abcde", method=98, payload=b""),
            Entry(b"dd-sig", txt, method=8, dd="sig"),
            Entry(b"dd-nosig", txt, dd="nosig"),
            Entry("ünï".encode(), b"u", utf8=True),
            Entry(b"cp437-\x82\x9a", b"c"),
            Entry(b"dosfile", b"d", made_by=(0 << 8) | 20, ext_attr=0x21),
            Entry(b"dosdir/", b"", made_by=(0 << 8) | 20, ext_attr=0x10),
            Entry(b"other-system", b"o", made_by=(7 << 8) | 20, ext_attr=0xdeadbeef),
            Entry(b"suid", b"s", ext_attr=(0o104755 << 16)),
            Entry(b"mode000", b"s", ext_attr=(0o100000 << 16)),
            Entry(b"link", b"target", ext_attr=(0o120777 << 16)),
            Entry(b"dir/", b"", ext_attr=(0o40700 << 16) | 0x10),
            Entry(b"oddtime", b"t", date_time=(0xffff, 0xffff)),
            Entry(b"zerotime", b"t", date_time=(0, 0)),
            Entry(b"z64", txt, method=8, z64=("usize", "csize")),
            Entry(b"extra", b"e", extra_local=struct.pack("<HH", 0xbeef, 3) + b"abc", extra_central=struct.pack("<HH", 0xcafe, 1) + b"z"),
            Entry(b"commented", b"e", comment=b"entry comment"),
            # sizes on different sides of the 32-bit limit: a small payload of an undecodable method that claims > 4 GiB
            Entry(b"huge-claim.xz", b"x", method=95, payload=bytes(range(27)), usize=5 * (1 << 30) + 12345, need=63),
        ]
        try:
            S.append(("genzip", genzip.build(ents)[0], ents))
            S.append(("genzip-prefix", genzip.build(ents[:6] + ents[10:12], prefix=b"#!/bin/sh\n" * 30, comment=b"cmt")[0], ents[:6] + ents[10:12]))
        except TypeError:
            raise
        # the crate's own writer
        ops = []
        for m, lv in ((0, None), (8, 0), (8, 1), (8, 9), (8, None), (12, 1), (12, 9), (93, -7), (93, 3), (93, 22)):
            ops += [("file", b"w-%d-%s" % (m, str(lv).encode()), Opts(method=m, level=lv, perm=0o751)), ("write", txt + bytes([m]))]
        ops += [("dir", b"wd", Opts()), ("symlink", b"wl", b"t", Opts()), ("finish",)]
        out = run_lines(exe, [wprog.line(ops)], shards=1)[0]
        _, data = wprog.final_bytes(out)
        S.append(("crate", data, None))
        bio = io.BytesIO()
        with zipfile.ZipFile(bio, "w") as z:
            z.writestr("py-stored", txt)
            z.writestr(zipfile.ZipInfo("py-defl", (1999, 12, 31, 23, 59, 58)), txt, zipfile.ZIP_DEFLATED)
            z.writestr("py-bz", txt, zipfile.ZIP_BZIP2)
            zi = zipfile.ZipInfo("py-mode"); zi.external_attr = (0o100600 << 16)
            z.writestr(zi, b"m")
        S.append(("zipfile", bio.getvalue(), None))
        return S

    def gen(self):
        r = self.rng
        S = self.sources()
        self.S = S
        self.src_raw = rawlist(self.exes["debug"], [s[1] for s in S])
        self.src_strict = [strictzip.validate(s[1])[0] if s[0] != "genzip-prefix" else None for s in S]
        progs, metas = [], []
        def normal(i):
            o = self.rand_opts()
            return [("file", b"n%d" % i, o), ("write", self.rand_content(False))]
        # every entry of every source: alone, first, last, renamed
        for si, (kind, data, ents) in enumerate(S):
            n = len(self.src_raw[si]["entries"])
            for idx in range(n):
                for shape in range(4 if self.tier == "thorough" or idx % 3 == si % 3 else 1):
                    rn = r.choice([None, b"renamed-%d" % idx, "rënamed".encode(), b"a/b/" + b"x" * 200])
                    rc = ("rawcopy", data, idx, rn if shape % 2 else None)
                    ops = {0: [rc], 1: [rc] + normal(1), 2: normal(0) + [rc], 3: normal(0) + [rc] + normal(2)}[shape]
                    progs.append(ops + [("finish",)])
                    metas.append(dict(k="copy"))
        for a in range(60 if self.tier == "quick" else 2500):
            ops = []
            for i in range(r.choice([1, 2, 3, 5, 9])):
                x = r.random()
                if x < 0.6:
                    si = r.randrange(len(S))
                    n = len(self.src_raw[si]["entries"])
                    ops.append(("rawcopy", S[si][1], r.randrange(n + (1 if r.random() < 0.05 else 0)), r.choice([None, None, b"rn%d" % i, b"dup"])))
                elif x < 0.85:
                    ops += normal(i)
                elif x < 0.92:
                    ops.append(("dir", b"d%d" % i, self.rand_opts()))
                else:
                    ops.append(("symlink", b"l%d" % i, b"tgt", self.rand_opts()))
            if r.random() < 0.3:
                ops.append(("comment", b"new comment"))
            progs.append(ops + [("finish",)])
            metas.append(dict(k="mix"))
        # a creating call REJECTED right after a raw copy (name beyond the 16-bit limit), then more calls: the copy must
        # stay what it was (the error path must not disturb the pending raw entry)
        LONG = b"n" * 65536
        for si, (kind, data, ents) in enumerate(S):
            n = len(self.src_raw[si]["entries"])
            for idx in (range(n) if self.tier == "thorough" else [r.randrange(n) for _ in range(4)] if n else []):
                rc = ("rawcopy", data, idx, None)
                rej = r.choice([[("file", LONG, self.rand_opts())], [("dir", LONG[:-1], self.rand_opts())], [("symlink", LONG, b"t", self.rand_opts())]])
                tail = r.choice([[], normal(7), [("rawcopy", data, idx, b"again")], [("dir", b"after", self.rand_opts())]])
                progs.append(r.choice([[], normal(0)]) + [rc] + rej + tail + [("finish",)])
                metas.append(dict(k="copy-then-rejected"))
        self.progs = progs
        # every third program runs over a sink that accepts each write only partially (never fails): the copied bytes must
        # arrive complete and in order all the same
        plans = [bytes(r.choice([1, 2, 3, 7, 40, 255]) for _ in range(r.randrange(20, 600))) if j % 3 == 1 else None for j in range(len(progs))]
        lines, outs = wprog.with_tables(self.exes["debug"], [dict(ops=o, plan=pl) for o, pl in zip(progs, plans)])
        # the crate's raw view of every destination
        dests = []
        for o in outs:
            _, d = wprog.final_bytes(o)
            dests.append(d or b"")
        dr = rawlist(self.exes["debug"], dests)
        for m, ops, d in zip(metas, progs, dr):
            m["ops"] = ops
            m["dest_raw"] = d
        return list(zip(lines, metas))

    def src_index(self, data):
        for i, s in enumerate(self.S):
            if s[1] is data or s[1] == data:
                return i

    def oracle(self, line, meta, out):
        if out is None or "PANIC" in out or out.startswith("ABORT") or out == "TIMEOUT":
            return "a writer call panicked or the process died: %s" % (out or "")[:160]
        calls, data = wprog.final_bytes(out)
        ops = meta["ops"]
        if calls is None or len(calls) != len(ops):
            return "unexpected output " + out[:100]
        if not (isinstance(calls[-1], list) and calls[-1][0] == "Ok"):
            return "finish failed on a program of legal calls: %s" % (calls[-1],)
        listing, problems = strictzip.validate(data)
        if problems:
            return "the archive with raw copies is not valid: " + "; ".join(problems[:3])
        dest = listing["entries"]
        draw = meta["dest_raw"]
        k = 0
        cur = None
        for op, c in zip(ops, calls):
            ok = isinstance(c, list) and c[0] == "Ok"
            kind = op[0]
            if kind == "rawcopy":
                si = self.src_index(op[1])
                sraw = self.src_raw[si]["entries"]
                if op[2] >= len(sraw):
                    if ok:
                        return "raw copy of a non-existent source entry succeeded"
                    continue
                if not ok:
                    return "raw copy of source %s entry %d failed: %s" % (self.S[si][0], op[2], c)
                if k >= len(dest):
                    return "a successful raw copy produced no entry"
                d, dm = dest[k], (draw["entries"][k] if draw and k < len(draw["entries"]) else None)
                sm = sraw[op[2]]
                if sm is None or dm is None:
                    return "by_index_raw failed on source or destination entry"
                if dm["raw"] != sm["raw"]:
                    return "raw bytes of the copy differ from the source's (crate reader)"
                # name (0), method (3), csize (4), size (5), crc (6), time (7)
                for fi, fn in ((3, "method"), (4, "compressed size"), (5, "size"), (6, "CRC-32"), (7, "timestamp")):
                    if dm["meta"][fi] != sm["meta"][fi]:
                        return "%s of the copy (%s) differs from the source's (%s)" % (fn, dm["meta"][fi], sm["meta"][fi])
                want_name = ("x" + op[3].hex()) if op[3] is not None else sm["meta"][0]
                if dm["meta"][0] != want_name:
                    return "name of the copy %s, expected %s" % (dm["meta"][0], want_name)
                if sm["meta"][8] != "NONE":
                    if dm["meta"][8] == "NONE" or (int(dm["meta"][8]) & 0o777) != (int(sm["meta"][8]) & 0o777):
                        return "permission bits of the copy %s differ from the source's %s" % (dm["meta"][8], sm["meta"][8])
                    if dm["meta"][8] != sm["meta"][8]:
                        return "Unix mode of the copy %s differs from the source's %s (type bits lost)" % (dm["meta"][8], sm["meta"][8])
                # independent view
                ents = self.S[si][2]
                ss = self.src_strict[si]
                spay = ents[op[2]].payload if ents is not None else ss["entries"][op[2]]["payload"]
                if d["payload"] != spay:
                    return "payload bytes in the destination differ from the source payload (independent parser)"
                scontent = ents[op[2]].content if ents is not None and ents[op[2]].method in (0, 8, 12) else (ss["entries"][op[2]]["content"] if ss else None)
                if scontent is not None and d["content"] is not None and d["content"] != scontent:
                    return "the copy decodes to different content"
                k += 1
                cur = None
            elif kind == "file":
                if ok:
                    cur = [k, b""]
                    k += 1
                    self._chk = cur
                    if not hasattr(self, "_files"):
                        pass
                    meta.setdefault("_normal", []).append(cur)
            elif kind in ("dir", "symlink"):
                if ok:
                    if kind == "symlink":
                        meta.setdefault("_normal", []).append([k, op[2]])
                    k += 1
                cur = None
            elif kind == "write" and cur is not None and ok:
                cur[1] += op[1]
        if k != len(dest):
            return "the archive lists %d entries, %d were created" % (len(dest), k)
        for idx, content in meta.pop("_normal", []):
            e = dest[idx]
            if e["content"] is not None and e["content"] != content:
                return "a neighbouring ordinary entry (%r) does not carry what was written" % e["name"]
            if e["content"] is None and e["method"] == 93:
                pass
        return None

    def nontrivial(self, line, meta, out):
        return any(o[0] == "rawcopy" for o in meta["ops"])

    def finish_meta(self, meta):
        return {k: v for k, v in meta.items() if k in ("k",)}

CHECK = C14
