"""C01 — write then read returns exactly what was written."""
import binascii, struct, re
import wprog
from wprog import Opts
from zvlib import Check, run_lines
from props.c04 import parse_entry_out

def hexs(b):
    return "x" + b.hex()

def spec_entries(ops):
    """the abstract semantics of the writer API on legal programs: [(name, content, method, date, time, mode)]"""
    out = []
    cur = None
    in_extra = False          # writes between start_file_with_extra_data and end_extra_data are extra data, not content
    for op in ops:
        k = op[0]
        if k in ("file", "extra", "aligned"):
            o = op[2]
            cur = [op[1], b"", o.method, o.date, o.time, ((o.perm if o.perm is not None else 0o644) | 0o100000)]
            out.append(cur)
            in_extra = k == "extra"
        elif k == "endextra":
            in_extra = False
        elif k == "dir":
            o = op[2]
            n = op[1] if op[1].endswith((b"/", b"\\")) else op[1] + b"/"
            out.append([n, b"", 0, o.date, o.time, ((o.perm if o.perm is not None else 0o755) | 0o40000)])
            cur = None; in_extra = False
        elif k == "symlink":
            o = op[3]
            out.append([op[1], op[2], 0, o.date, o.time, ((o.perm if o.perm is not None else 0o777) | 0o120000)])
            cur = None; in_extra = False
        elif k == "write" and cur is not None and not in_extra:
            cur[1] += op[1]
    return out

class C01(Check):
    pid = "C01"
    profiles = ("debug",)
    rule = ("writer programs of 0..12 entries (thorough: up to 200; one program of 65,537 empty entries, thorough: five counts around 65,535): files with contents from "
            "{empty, 1 byte, text, incompressible, long runs, 64 KiB+-1, 1 MiB}, names from {ASCII, non-ASCII UTF-8, embedded "
            "NUL/backslash, empty, duplicates, 65535 bytes}, every method x {None, min, max, interior level}, DOS timestamps "
            "over field boundaries, all permission values across the run, large_file, directories, symlinks, comments "
            "0/1/65535 bytes, writes split arbitrarily; each program finished by finish() and by drop.  Compared: the whole "
            "archive byte string with the model (compressed payloads supplied as the enc oracle), then the crate's reader on "
            "those bytes with the reader model; oracle: re-read entries equal what was written, drop bytes = finish bytes.  "
            "non-trivial = >= 1 entry; distinct = distinct archive bytes")
    trusted = ["tools/strictzip.py payload slicing for the compressor oracle"]
    assumptions = ["codec_ok: dec(enc(x)) = x for flate2/bzip2/zstd is checked per case by CPython zlib/bz2 (zstd: by the crate's own reader)"]

    def rand_opts(self):
        r = self.rng
        method = r.choice([0, 0, 8, 8, 12, 93])
        level = None
        if method == 8 and r.random() < 0.6:
            level = r.choice([0, 1, 5, 9])
        if method == 12 and r.random() < 0.6:
            level = r.choice([1, 5, 9])
        if method == 93 and r.random() < 0.6:
            level = r.choice([-7, -1, 0, 1, 3, 19, 22])
        y, mo, d, h, mi, s2 = r.choice([1980, 1981, 2000, 2018, 2107]), r.randrange(1, 13), r.randrange(1, 29), r.randrange(24), r.randrange(60), r.randrange(30)
        return Opts(method=method, level=level, date=((y - 1980) << 9) | (mo << 5) | d, time=(h << 11) | (mi << 5) | s2,
                    perm=r.choice([None, None] + [self.perm_counter()]), large=r.random() < 0.1)

    def perm_counter(self):
        self._perm = (getattr(self, "_perm", -1) + 7) % 512
        return self._perm

    def rand_content(self, big_ok):
        r = self.rng
        kind = r.randrange(8 if big_ok else 6)
        if kind == 0:
            return b""
        if kind == 1:
            return bytes([r.randrange(256)])
        if kind == 2:
            return b"Lorem ipsum dolor sit amet " * r.randrange(1, 40)
        if kind == 3:
            return bytes(r.randrange(256) for _ in range(r.randrange(1, 3000)))
        if kind == 4:
            return bytes([r.randrange(256)]) * r.randrange(1, 5000)
        if kind == 5:
            return bytes(r.randrange(4) for _ in range(r.randrange(1, 2000)))
        if kind == 6:
            return bytes(r.randrange(256) for _ in range(r.choice([65535, 65536, 65537])))
        return bytes(r.randrange(7) for _ in range(1 << 20))

    def rand_name(self, i):
        r = self.rng
        return r.choice([b"f%d.txt" % i, b"dir/sub/f%d" % i, ("näme-%d-日本" % i).encode(), b"nul\0in%d" % i, b"back\\slash%d" % i, b"", b"dup", b"dup",
                         b"sp ace %d" % i, b"../up%d" % i, b"/abs%d" % i]) if (r.random() < 0.995 or getattr(self, "_longname", False) and self.tier == "quick") else self.long_name(i)

    def long_name(self, i):
        self._longname = True
        return (b"L%d-" % i) * 9000 + b"x" * (65535 - len((b"L%d-" % i) * 9000))

    def gen(self):
        r = self.rng
        progs = []
        n = 60 if self.tier == "quick" else 1200
        for a in range(n):
            k = r.choice([0, 1, 1, 2, 3, 5, 8, 12])
            ops = []
            for i in range(k):
                kind = r.random()
                if kind < 0.7:
                    # the three ways to start a file: plain, with extra data (local, then optionally central-only), aligned
                    how = r.random()
                    if how < 0.7:
                        ops.append(("file", self.rand_name(i), self.rand_opts()))
                    elif how < 0.85:
                        ops.append(("extra", self.rand_name(i), self.rand_opts()))
                        for part in range(r.choice([1, 1, 2])):
                            if part == 1:
                                ops.append(("endlocal",))
                            for q in range(r.choice([0, 1, 1, 2])):
                                n = r.choice([0, 1, 4, 20, 300])
                                ops.append(("write", struct.pack("<HH", 0xbe00 + r.randrange(256), n) + bytes(r.randrange(256) for _ in range(n))))
                        if r.random() < 0.2:
                            continue                       # no end_extra_data: the next call ends the extra data implicitly (empty file)
                        ops.append(("endextra",))
                    else:
                        ops.append(("aligned", self.rand_name(i), self.rand_opts(), r.choice([0, 1, 2, 4, 3, 64, 100, 512, 4096, 32768])))
                    # 1 MiB contents only in the last entry of a few programs: every later call on a multi-megabyte sink costs the
                    # list-based model a deep recursion (the stack is scanned at each minor collection)
                    c = self.rand_content(big_ok=(i == k - 1 and (a == 7 if self.tier == 'quick' else a % 15 == 0)))
                    # split the writes arbitrarily
                    pos = 0
                    cuts = sorted(set(r.randrange(len(c) + 1) for _ in range(r.choice([0, 0, 1, 3])))) if c else []
                    for cpos in cuts + [len(c)]:
                        if cpos > pos or (not c and cpos == 0 and r.random() < 0.3):
                            ops.append(("write", c[pos:cpos]))
                        pos = cpos
                elif kind < 0.85:
                    o = self.rand_opts(); o.method = r.choice([0, 8])
                    ops.append(("dir", r.choice([b"d%d" % i, b"d%d/" % i, b"a/b/c%d\\" % i]), o))
                else:
                    ops.append(("symlink", b"link%d" % i, r.choice([b"target", b"../x", "zü".encode()]), self.rand_opts()))
            if r.random() < 0.5:
                ops.insert(r.randrange(len(ops) + 1), ("comment", r.choice([b"", b"c", b"archive comment", b"archive comment", b"C" * 65535])))
            progs.append(ops)
        # one large incompressible write per compressing method (encoders accept such a buffer only partially)
        for m in (8, 12, 93, 0):
            progs.append([("file", b"big%d" % m, Opts(method=m)), ("write", bytes(r.randrange(256) for _ in range(300000 if m != 12 else 1100000)))])
        # more entries than the 16-bit count of the end record can hold (ZIP64 end record by count)
        for cnt in ((65537,) if self.tier == "quick" else (65534, 65535, 65536, 65537, 70000)):
            progs.append([("file", b"e%d" % i, Opts()) for i in range(cnt)] + ([("comment", b"ZIP64 end records and a comment")] if cnt % 2 else []))
        # known finding D22: the last central record ends in bytes that look like a ZIP64 locator (20 bytes in front of
        # the end record): the crate's reader, like CPython's zipfile, takes them for one and cannot open the archive
        progs.append([("file", b"x" + b"PK\x06\x07" + b"0123456789abcdef", Opts()), ("write", b"data")])
        # each program twice: explicit finish, and plain drop
        both = []
        for j, ops in enumerate(progs):
            # a third of the programs run over a sink that accepts writes only partially (never fails)
            plan = bytes(r.choice([1, 2, 3, 7, 40, 255]) for _ in range(r.randrange(5, 400))) if j % 3 == 1 else None
            both.append(dict(ops=ops + [("finish",)], plan=plan))
            both.append(dict(ops=ops, plan=plan))
        lines, outs = wprog.with_tables(self.exes["debug"], both)
        cases = []
        for j in range(0, len(both), 2):
            ops = progs[j // 2]
            cf, df = wprog.final_bytes(outs[j])
            cd, dd = wprog.final_bytes(outs[j + 1])
            exp = spec_entries(ops)
            com = [op[1] for op in ops if op[0] == "comment"]
            # programs with tens of thousands of entries: the writer model is quadratic in the entry count (list
            # append / last element); they are judged by the oracle on the implementation only (C08 compares every
            # header of such archives with the model's header writers)
            huge = len(ops) > 20000
            meta = dict(k="prog", n=len(exp), impl_only=huge)
            if df != dd:
                meta["pre_violation"] = "finish() and drop produce different bytes"
            cases.append((lines[j], meta))
            cases.append((lines[j + 1], dict(k="prog", n=len(exp), impl_only=huge)))
            if df is None:
                continue
            if len(df) > ((4 << 20) if not huge else (24 << 20)):
                continue
            clen = len(com[-1]) if com else 0
            fake = len(df) >= 42 + clen and df[len(df) - 42 - clen:len(df) - 38 - clen] == b"PK\x06\x07" and b"PK\x06\x06" not in df[-200 - clen:]
            cases.append(("open " + hexs(df), dict(k="open", n=len(exp), comment=(com[-1] if com else b"").hex(), fake_locator=fake, impl_only=huge)))
            idxs = range(len(exp)) if len(exp) <= 12 else r.sample(range(len(exp)), 12 if not huge else 3) + ([len(exp) - 1] if huge else [])
            for i in idxs:
                e = exp[i]
                cases.append(("entry %s %d 0 x %d" % (hexs(df), i, r.choice([1, 7, 4096, 65536]) if len(e[1]) <= 3000 and len(df) <= 40000 else r.choice([4096, 65536])),
                              dict(k="entry", n=len(exp), name=e[0].hex(), content=e[1].hex() if len(e[1]) <= 70000 else None,
                                   crc=binascii.crc32(e[1]) & 0xffffffff, usize=len(e[1]), method=e[2], date=e[3], time=e[4], mode=e[5], fake_locator=fake,
                                   # the model's path accessors are quadratic in the name length: 64 KiB names on the crate only
                                   impl_only=huge or len(e[0]) > 20000)))
        return cases

    def oracle(self, line, meta, out):
        if meta.get("pre_violation"):
            return meta["pre_violation"]
        if out is None or "PANIC" in out or out.startswith("ABORT") or out == "TIMEOUT":
            return "implementation did not return: %s" % (out or "")[:160]
        k = meta["k"]
        if k == "prog":
            if "[Err" in out.split("] [Ok unit] ")[0] and "[Err" in out:
                return "a legal writer call failed: " + re.search(r"\[Err[^\]]*\]+", out).group(0)
            return None
        if k == "open":
            m = re.match(r"\[Ok \[(\d+) x([0-9a-f]*) (\d+) ", out)
            if not m:
                return "archive written by the crate does not open: " + out[:120]
            if int(m.group(3)) != meta["n"]:
                return "entry count %s after re-reading, %d were written" % (m.group(3), meta["n"])
            if m.group(2) != meta["comment"]:
                return "archive comment differs after re-reading"
            if int(m.group(1)) != 0:
                return "offset() != 0 for an archive without prefix"
            return None
        kind, mm, rd = parse_entry_out(out)
        if kind != "Ok":
            return "entry written by the crate cannot be read back: " + out[:160]
        if mm[0][1:] != meta["name"] or mm[1][1:] != meta["name"]:
            return "name differs after re-reading"
        if int(mm[3]) != meta["method"]:
            return "method differs after re-reading"
        if int(mm[5]) != meta["usize"] or int(mm[6]) != meta["crc"]:
            return "declared size/CRC differ from the written content"
        d, t = meta["date"], meta["time"]
        if mm[7] != "T%d_%d_%d_%d_%d_%d" % ((d >> 9) + 1980, (d >> 5) & 15, d & 31, t >> 11, (t >> 5) & 63, (t & 31) * 2):
            return "timestamp differs after re-reading: " + mm[7]
        if mm[8] != str(meta["mode"]):
            return "unix mode %s after re-reading, written %o" % (mm[8], meta["mode"])
        r2 = re.match(r"\[Ok x([0-9a-f]*)\]", rd or "")
        if not r2:
            return "content cannot be read back: " + (rd or "")[:100]
        got = bytes.fromhex(r2.group(1))
        if binascii.crc32(got) & 0xffffffff != meta["crc"] or len(got) != meta["usize"] or (meta["content"] is not None and got.hex() != meta["content"]):
            return "content differs after re-reading"
        return None

    def finding_key(self, line, meta, why):
        # D22: only archives whose bytes carry the locator signature exactly 20 bytes in front of the end record
        if isinstance(meta, dict) and meta.get("fake_locator") and ("does not open" in why or "cannot be read back" in why):
            return "fake-zip64-locator-before-end-record"
        return None

    def nontrivial(self, line, meta, out):
        return meta.get("n", 0) >= 1

CHECK = C01
