"""C07 — extract() reproduces the tree and writes nothing outside the target."""
import posixpath, re
import genzip
from genzip import Entry
from zvlib import Check, _parse_obs
from props.c06 import unsafe

def hexs(b):
    return "x" + b.hex()

CANARY = [["x63616e617279", "D", "493"], ["x63616e6172792f66", "F", "420", "x63616e617279"]]

class C07(Check):
    pid = "C07"
    rule = ("archives of 0..6 stored entries whose names are drawn from: '..' chains, absolute paths, NUL, backslashes, "
            "'.'/'..' in every position, duplicates, file/dir conflicts, symlink-typed entries, deep nesting, trailing "
            "separators, with arbitrary permission bits and made-by systems; extracted with ZipArchive::extract and "
            "ZipStreamReader::extract into <sandbox>/t next to a populated <sandbox>/canary; the whole sandbox is listed "
            "(paths, types, modes, contents) afterwards.  non-trivial = archive with an unsafe, conflicting or nested "
            "name; distinct = distinct outcome + tree")
    trusted = ["the kernel and std::fs of the host (the model of them, Spec/Fs.v, is compared on every case)", "tools/genzip.py"]
    assumptions = ["no symlinks inside the target, root privileges (permission enforcement not modelled), umask 022 set by the harness",
                   "compressed entries are judged by the oracle only (the model extracts stored entries)"]

    def gen(self):
        r = self.rng
        cases = []
        atoms = [b"a", b"b", b"dir", b"..", b".", b"", b"x.txt", b"a\\b", b"sub", b"c", b"n\\", b"\\"]
        def rand_name():
            k = r.choice([1, 1, 2, 2, 3, 4, 6])
            parts = [r.choice(atoms) for _ in range(k)]
            n = b"/".join(parts)
            if r.random() < 0.1:
                n = b"/" + n
            if r.random() < 0.25:
                n += b"/"
            if r.random() < 0.05:
                n = n[:len(n) // 2] + b"\0" + n[len(n) // 2:]
            return n
        fixed = [
            [b"../evil"], [b"a/../../evil"], [b"/abs/path"], [b"ok", b"../../canary/f"], [b"a/../b"], [b"a/./b/"], [b"./x"],
            [b"d/", b"d"], [b"f", b"f/g"], [b"f", b"f"], [b"f/", b"f/"], [b"a/b/c/d/e/f/g/h/i/j/k/l/m/n/o/p/q/r/s/t/u/v/w/x/y/z/file"],
            [b"nul\0name"], [b"back\\slash"], [b"notes\\"], [b"d/notes\\", b"d/x"], [b"\\"], [b"a/.."], [b"a/."], [b"."], [b""], [b"a//b"], [b"trail/"], [b"..\\..\\x"], [b"canary/../../canary/f"],
            [b"d/x", b"d/"], [b"a/b/c", b"a/", b"a/b/"], [b"p/q/", b"p/"], [b"k/f", b"k/g", b"k/"],
        ]
        arch = [ns for ns in fixed]
        for _ in range(400 if self.tier == "quick" else 8000):
            arch.append([rand_name() for _ in range(r.choice([1, 2, 3, 4, 6]))])
        # the two copies of a name may differ (the streaming extractor creates files from the local headers and applies
        # permissions from the central records): (central name, local name)
        split = [[(b"../canary/f", b"safe.txt")], [(b"../canary", b"d/")], [(b"/abs/path", b"ok")], [(b"a/../../canary/f", b"a/x")],
                 [(b"other", b"safe")], [(b"safe", b"../evil")], [(b"nul\0x", b"fine")]]
        for _ in range(40 if self.tier == "quick" else 800):
            split.append([(rand_name(), rand_name()) for _ in range(r.choice([1, 2, 3]))])
        for names in arch + split:
            ents = []
            locals_ = [None] * len(names)
            if names and isinstance(names[0], tuple):
                locals_ = [q[1] for q in names]
                names = [q[0] for q in names]
            for i, n in enumerate(names):
                isdir = n.endswith(b"/")
                mode = r.choice([0o100644, 0o100600, 0o100755, 0o100000, 0o40755, 0o40700, 0o120777, 0o100777, 0o104755, 0])
                made = r.choice([(3 << 8) | 20, (3 << 8) | 20, 20, (7 << 8) | 20])
                attr = (mode << 16) | (0x10 if isdir else 0)
                if made >> 8 == 0:
                    attr = r.choice([0x10, 0x20, 0x01, 0x11, 0])
                ents.append(Entry(n, b"" if isdir else (b"content-%d-" % i) * r.randrange(1, 4), method=0, utf8=True, made_by=made, ext_attr=attr,
                                  local_name=locals_[i]))
            data, man = genzip.build(ents)
            meta = dict(names=[n.hex() for n in names] + [q.hex() for q in locals_ if q is not None], split=any(q is not None for q in locals_), ents=[dict(name=e.name.hex(), content=e.content.hex(), made=e.made_by, attr=e.ext_attr) for e in ents])
            cases.append(("extract %s 0" % hexs(data), dict(mode=0, **meta)))
            cases.append(("extract %s 1" % hexs(data), dict(mode=1, **meta)))
        # compressed contents (oracle only)
        for _ in range(20):
            # (every other archive carries the sizes of its entries in ZIP64 records of the local headers, as the crate's
            # writer does for large_file entries: the streaming extractor takes them from there)
            z_ = _ % 2 == 1
            ents = [Entry(b"z/%d.txt" % i, b"compress me " * 50, method=r.choice([8, 12]), utf8=True, ext_attr=0o100640 << 16, z64_local=z_) for i in range(3)]
            data, man = genzip.build(ents)
            meta = dict(names=[e.name.hex() for e in ents], ents=[dict(name=e.name.hex(), content=e.content.hex(), made=e.made_by, attr=e.ext_attr) for e in ents], impl_only=True)
            cases.append(("extract %s 0" % hexs(data), dict(mode=0, **meta)))
            cases.append(("extract %s 1" % hexs(data), dict(mode=1, **meta)))
        return cases

    def oracle(self, line, meta, out):
        if out is None or "PANIC" in out or out.startswith("ABORT") or out == "TIMEOUT":
            return "implementation did not return: %s" % (out or "")[:120]
        p = _parse_obs(out)
        if not p or len(p[0]) != 2:
            return "unexpected output " + out[:100]
        res, tree = p[0]
        outside = [e for e in tree if not (e[0] == "x74" or e[0].startswith("x742f"))]
        if outside != CANARY:
            return "something outside the target directory was created, modified or removed: %s" % outside
        names = [bytes.fromhex(h) for h in meta["names"]]
        if any(unsafe(n) for n in names):
            if res == "Ok" and not meta.get("split"):
                return "an entry name is unsafe but extraction reported success"
            return None
        if meta.get("split"):
            return None          # differing copies: confinement (above) and agreement with the model decide
        # safe and mutually consistent: no duplicates/conflicts, no '.', '..' or empty components, no NUL/backslash corner
        norm = []
        for n in names:
            parts = n.split(b"/")
            if n.endswith(b"/"):
                parts = parts[:-1]
            if any(q in (b"", b".", b"..") for q in parts) or not parts:
                return None
            norm.append((b"/".join(parts), n.endswith(b"/")))
        paths = {}
        explicit = set()
        for pth, isdir in norm:
            comps = pth.split(b"/")
            for k in range(1, len(comps)):
                d = b"/".join(comps[:k])
                if paths.get(d, "D") != "D":
                    return None
                paths.setdefault(d, "D")
            if pth in paths and not (isdir and paths[pth] == "D" and pth not in explicit):
                return None
            # (a directory entry listed after entries below it is consistent: it names a directory that already exists)
            explicit.add(pth)
            paths[pth] = "D" if isdir else "F"
        if res != "Ok":
            return "safe, consistent archive failed to extract: %s" % res
        got = {bytes.fromhex(e[0][1:])[2:]: e for e in tree if e[0].startswith("x742f")}
        if set(got) != set(paths):
            return "extracted tree %s differs from the archive's %s" % (sorted(got), sorted(paths))
        for e, (pth, isdir) in zip(meta["ents"], norm):
            g = got[pth]
            if (g[1] == "D") != isdir:
                return "entry %r extracted as the wrong kind" % pth
            if not isdir and g[3][1:] != e["content"]:
                return "content of %r differs" % pth
            sysid, attr = e["made"] >> 8, e["attr"]
            mode = (attr >> 16) if (sysid == 3 and attr) else None
            if sysid == 0 and attr:
                mode = (0o40775 if attr & 0x10 else 0o100664) & (0o555 | 0o170000 if attr & 1 else 0o177777)
            want = (mode & 0o7777) if mode is not None else (0o755 if isdir else 0o644)
            if int(g[2]) != want:
                return "mode of %r is %o, recorded permission bits say %o" % (pth, int(g[2]), want)
        return None

    def nontrivial(self, line, meta, out):
        names = [bytes.fromhex(h) for h in meta["names"]]
        return any(b"/" in n or b".." in n or b"\\" in n for n in names) or len(set(names)) != len(names)

CHECK = C07
