"""C13 — appending keeps every existing entry and adds the new ones."""
import binascii, bz2, io, struct, zipfile, zlib
import genzip, strictzip, wprog
from genzip import Entry
from wprog import Opts
from zvlib import Check, run_lines, _parse_obs
from props.c01 import C01
from props.c14 import rawlist

def hexs(b):
    return "x" + b.hex()

def decode(method, raw):
    try:
        if method == 0:
            return raw
        if method == 8:
            return zlib.decompress(raw, -15)
        if method == 12:
            return bz2.decompress(raw)
    except Exception:
        return b"<undecodable>"
    return None

def span_problem(base, new, oldraw):
    """every old entry's local header + name + extra + stored bytes must be the very same bytes at the same place"""
    if oldraw is None or not new:
        return None
    for k, e in enumerate(oldraw["entries"]):
        if e is None:
            continue
        try:
            hoff, cs = int(e["meta"][10]), int(e["meta"][4])
        except Exception:
            continue
        if base[hoff:hoff + 4] != b"PK\x03\x04" or hoff + 30 > len(base):
            continue
        n, m = struct.unpack("<HH", base[hoff + 26:hoff + 30])
        end = hoff + 30 + n + m + cs
        if base[hoff:end] != new[hoff:end]:
            return "old entry %d: the bytes of its local header / data at %d..%d were modified by the append" % (k, hoff, end)
    return None

class C13(C01):
    pid = "C13"
    rule = ("histories base -> (append k_i entries, optionally replace the comment, finish)* with 0..4 rounds (thorough: 8); "
            "k_i in {0,1,2,4}; bases: empty archive, the crate's own writer (all methods, comment), the independent builder "
            "(plain; 1..5000 bytes prepended; ZIP64 end records and extras forced; data-descriptor entries; non-ASCII and "
            "CP437 names; DOS/Unix made-by; encrypted entry among plain ones; entry comments), CPython zipfile; thorough adds a "
            "65,537-entry base.  Every round is one writer program run on the crate and on the model (new_append + calls), "
            "bytes compared; oracle after every round: by_index_raw of the crate on the old and the new archive: same number "
            "of old entries, in order, same name / method / sizes / CRC / time / mode / raw bytes / header offset, and the byte span "
            "local header..end of data of every old entry identical at the same place; new entries "
            "follow in call order and decode (CPython zlib/bz2) to what was written; archive comment = replacement or the "
            "previous one; crate-origin histories are also judged by the strict validator.  "
            "non-trivial = a round on a non-empty base or adding >= 1 entry; distinct = distinct archive bytes")
    trusted = ["tools/genzip.py, CPython zipfile as independent base producers", "tools/strictzip.py"]
    assumptions = ["encrypted old entries are carried over as raw bytes and not judged for content (the property speaks of unencrypted entries)"]

    def bases(self):
        r = self.rng
        exe = self.exes["debug"]
        txt = b"Appending must not disturb this. " * 6
        B = []
        B.append(("empty", genzip.build([])[0], False))
        ops = []
        for m, lv in ((0, None), (8, 9), (8, None), (12, None), (93, None)):
            ops += [("file", b"w-%d" % m, Opts(method=m, level=lv, perm=0o640)), ("write", txt + bytes([m]))]
        ops += [("dir", b"wd", Opts()), ("symlink", b"wl", b"t", Opts()), ("comment", b"crate comment"), ("finish",)]
        out = run_lines(exe, [wprog.line(ops)], shards=1)[0]
        B.append(("crate", wprog.final_bytes(out)[1], True))
        ents = [Entry(b"a.txt", txt), Entry(b"b.defl", txt, method=8), Entry("ü".encode(), b"u", utf8=True), Entry(b"cp\x82", b"c"),
                Entry(b"dos", b"d", made_by=20, ext_attr=0x20), Entry(b"x755", b"m", ext_attr=(0o100755 << 16)),
                Entry(b"oddtime", b"t", date_time=(0x0021, 0xbf7d)), Entry(b"cm", b"e", comment=b"entry comment")]
        B.append(("genzip", genzip.build(ents, comment=b"base comment")[0], False))
        for n in (1, 22, 5000):
            B.append(("genzip-prefix%d" % n, genzip.build(ents[:4], prefix=bytes(r.randrange(256) for _ in range(n)))[0], False))
        B.append(("genzip-z64", genzip.build(ents[:3], force_z64=True)[0], False))
        B.append(("genzip-z64x", genzip.build([Entry(b"z1", txt, z64=("usize", "csize", "offset")), Entry(b"z2", txt, method=8, z64=("csize",))], force_z64=True, comment=b"zc")[0], False))
        B.append(("genzip-dd", genzip.build([Entry(b"dd1", txt, method=8, dd="sig"), Entry(b"dd2", txt, dd="nosig"), Entry(b"plain", b"p")])[0], False))
        B.append(("genzip-enc", genzip.build([Entry(b"plain1", txt), Entry(b"secret", txt, password=b"pw"), Entry(b"plain2", b"q", method=8)])[0], False))
        bio = io.BytesIO()
        with zipfile.ZipFile(bio, "w") as z:
            z.writestr("py-stored", txt)
            z.writestr("py-defl", txt, zipfile.ZIP_DEFLATED)
            z.comment = b"py comment"
        B.append(("zipfile", bio.getvalue(), False))
        if self.tier == "thorough":
            many = [("file", b"e%d" % i, Opts()) for i in range(65537)] + [("finish",)]
            out = run_lines(exe, [wprog.line(many)], shards=1)[0]
            B.append(("crate-65537", wprog.final_bytes(out)[1], True))
        return B

    def gen(self):
        r = self.rng
        exe = self.exes["debug"]
        B = self.bases()
        hist = []
        reps = 3 if self.tier == "quick" else 40
        for name, data, strict in B:
            for rep in range(reps if "65537" not in name else 1):
                hist.append(dict(base=name, cur=data, strict=strict, rounds=r.choice([1, 2, 3, 4]) if self.tier == "quick" else r.randrange(1, 9), alive=True))
        cases = []
        prev_raw = rawlist(exe, [h["cur"] for h in hist])
        rnd = 0
        while any(h["alive"] and h["rounds"] > rnd for h in hist):
            act = [i for i, h in enumerate(hist) if h["alive"] and h["rounds"] > rnd]
            progs = []
            for i in act:
                ops = []
                for j in range(r.choice([0, 1, 1, 2, 4])):
                    x = r.random()
                    nm = b"r%d-%d" % (rnd, j)
                    if x < 0.75:
                        o = self.rand_opts()
                        ops += [("file", nm, o), ("write", self.rand_content(False))]
                    elif x < 0.85:
                        ops.append(("dir", nm, self.rand_opts()))
                    elif x < 0.95:
                        ops.append(("symlink", nm, b"tgt", self.rand_opts()))
                    else:
                        ops += [("aligned", nm, self.rand_opts(), 64), ("write", b"aligned")]
                if r.random() < 0.25:
                    # a rejected add (name longer than the 16-bit field) in front of or between the legal ones: it must be refused
                    # and must leave the old entries alone
                    ops.insert(r.choice([0, 0, len(ops)]), ("file", b"N" * r.choice([65536, 70000]), Opts()))
                if r.random() < 0.3:
                    ops.append(("comment", r.choice([b"", b"replaced comment %d" % rnd])))
                ops.append(("finish",))
                progs.append(dict(ops=ops, base=hist[i]["cur"]))
            lines, outs = wprog.with_tables(exe, progs)
            news = []
            for i, p, o in zip(act, progs, outs):
                _, d = wprog.final_bytes(o)
                news.append(d or b"")
            new_raw = rawlist(exe, news)
            for i, p, l, o, d, nr in zip(act, progs, lines, outs, news, new_raw):
                h = hist[i]
                cases.append((l, dict(base=h["base"], round=rnd, ops=p["ops"], old=prev_raw[i], new=nr, strict=h["strict"], nold=len(h["cur"]),
                                      span=span_problem(h["cur"], d, prev_raw[i]),
                                      # the list-based model is quadratic in the entry count: the 65,537-entry base is judged
                                      # by the oracle on the implementation only
                                      impl_only="65537" in h["base"])))
                calls, _ = wprog.final_bytes(o)
                fin_ok = calls is not None and isinstance(calls[-1], list) and calls[-1][0] == "Ok"
                if fin_ok and d:
                    h["cur"] = d
                    prev_raw[i] = nr
                else:
                    h["alive"] = False
            rnd += 1
        # directed: append rounds that SHRINK the tail by 1..23 bytes (nothing added, comment replaced by a shorter one; also
        # with one tiny entry added): the new end record must still be the last thing in the file
        base30 = genzip.build([Entry(b"a", b"x"), Entry(b"b", b"yy", method=8)], comment=b"c" * 30)[0]
        base30z = genzip.build([Entry(b"a", b"x")], comment=b"c" * 30, force_z64=True)[0]
        dprogs = []
        for bname, bdata in (("shrink30", base30), ("shrink30-z64", base30z)):
            for k in (1, 2, 5, 10, 21, 22, 23, 30):
                dprogs.append((bname, dict(ops=[("comment", b"c" * (30 - k)), ("finish",)], base=bdata)))
            dprogs.append((bname, dict(ops=[("finish",)], base=bdata)))
        dl, do = wprog.with_tables(exe, [p_ for _, p_ in dprogs])
        dnews = [wprog.final_bytes(o_)[1] or b"" for o_ in do]
        dold = rawlist(exe, [p_["base"] for _, p_ in dprogs])
        dnew = rawlist(exe, dnews)
        for (bname, p_), l_, d_, or_, nr_ in zip(dprogs, dl, dnews, dold, dnew):
            cases.append((l_, dict(base=bname, round=0, ops=p_["ops"], old=or_, new=nr_, strict=False, nold=len(p_["base"]),
                                   span=span_problem(p_["base"], d_, or_), impl_only=False)))
        # bases beyond 4 GiB (sparse foreign archives, ZIP64 blocks in every allowed layout): one append round, old entries
        # must be listed exactly as before (shared with C08)
        from props.c08 import C08, G
        helper = C08(self.tier, self.seed)
        for S, pre in ((G + 1, 0), (100, G + 5), (G + 1, G)):
            for layout in ("min", "all", "after-other"):
                line, meta = helper.foreign_sparse(S, pre, layout, op="bigappend", verify=1 << 20)
                cases.append((line, dict(meta, k="bigappend")))
        return cases

    def oracle(self, line, meta, out):
        if out is None or "PANIC" in out or out.startswith("ABORT") or out == "TIMEOUT":
            return "a writer call panicked or the process died: %s" % (out or "")[:160]
        if isinstance(meta, dict) and meta.get("k") == "bigappend":
            from props.c08 import C08
            return C08.oracle(self, line, meta, out)
        if out.startswith("[AppendErr"):
            return "a readable archive could not be opened for append: " + out[:120]
        calls, data = wprog.final_bytes(out)
        ops = meta["ops"]
        if calls is None or len(calls) != len(ops):
            return "unexpected output " + out[:100]
        toolong = lambda op: op[0] == "file" and len(op[1]) > 65535
        for op, c in zip(ops, calls):
            if toolong(op):
                if isinstance(c, list) and c[0] == "Ok":
                    return "a name of %d bytes was accepted" % len(op[1])
                continue
            if not (isinstance(c, list) and c[0] == "Ok"):
                return "a legal %s call failed while appending: %s" % (op[0], c)
        if meta.get("span"):
            return meta["span"]
        old, new = meta["old"], meta["new"]
        if old is None:
            return None          # the base was not readable by the crate in the first place
        if new is None:
            return "the archive produced by append+finish cannot be opened"
        oe, ne = old["entries"], new["entries"]
        if len(ne) < len(oe):
            return "the appended archive has %d entries, the base had %d" % (len(ne), len(oe))
        for k, (a, b) in enumerate(zip(oe, ne)):
            if a is None:
                continue
            if b is None:
                return "old entry %d is no longer readable" % k
            for fi, fn in ((0, "name"), (3, "method"), (4, "compressed size"), (5, "size"), (6, "CRC-32"), (7, "timestamp"), (8, "mode"), (10, "header offset")):
                if a["meta"][fi] != b["meta"][fi]:
                    return "old entry %d: %s changed from %s to %s" % (k, fn, a["meta"][fi], b["meta"][fi])
            if a["raw"] != b["raw"]:
                return "old entry %d: stored bytes changed" % k
        # new entries
        k = len(oe)
        cur = None
        exp = []
        comment = None
        for op in ops:
            kind = op[0]
            if toolong(op):
                cur = None
            elif kind in ("file", "aligned"):
                cur = [op[1], b"", op[2].method]
                exp.append(cur)
            elif kind == "dir":
                exp.append([op[1] + b"/", b"", 0]); cur = None
            elif kind == "symlink":
                exp.append([op[1], op[2], 0]); cur = None
            elif kind == "write" and cur is not None:
                cur[1] += op[1]
            elif kind == "comment":
                comment = op[1]
        if len(ne) != len(oe) + len(exp):
            return "expected %d old + %d new entries, the archive lists %d" % (len(oe), len(exp), len(ne))
        for (nm, content, method), e in zip(exp, ne[len(oe):]):
            if e is None:
                return "new entry %r is not readable" % nm
            if e["meta"][0] != "x" + nm.hex():
                return "new entry name %s, expected %r" % (e["meta"][0], nm)
            raw = bytes.fromhex(e["raw"][1:]) if isinstance(e["raw"], str) and e["raw"].startswith("x") else None
            got = decode(int(e["meta"][3]), raw) if raw is not None else None
            if got is not None and got != content:
                return "new entry %r does not decode to what was written" % nm
            if int(e["meta"][6]) != (binascii.crc32(content) & 0xffffffff) or int(e["meta"][5]) != len(content):
                return "new entry %r has wrong CRC or size" % nm
        want_c = "x" + comment.hex() if comment is not None else old["comment"]
        if new["comment"] != want_c:
            return "archive comment is %s, expected %s" % (new["comment"], want_c)
        if meta["strict"]:
            _, problems = strictzip.validate(data)
            if problems:
                return "appended archive is not valid: " + "; ".join(problems[:3])
        return None

    def nontrivial(self, line, meta, out):
        if meta.get("k") == "bigappend":
            return True
        return (meta["old"] is not None and len(meta["old"]["entries"]) > 0) or len(meta["ops"]) > 1

CHECK = C13
