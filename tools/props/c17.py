"""C17 — aligned entries are aligned; extra data lands where requested."""
import re, struct
import strictzip, wprog
from wprog import Opts
from zvlib import Check, _parse_obs

def hexs(b):
    return "x" + b.hex()

RESERVED = [0x0001, 0x0007, 0x0008, 0x0009, 0x000a, 0x000c, 0x000d, 0x000e, 0x000f, 0x0014, 0x0015, 0x0016, 0x0017, 0x0018, 0x0019,
            0x0020, 0x0021, 0x0022, 0x0023, 0x0065, 0x0066, 0x4690, 0x07c8, 0x2605, 0x2705, 0x2805, 0x334d, 0x4341, 0x4453, 0x4704,
            0x470f, 0x4b46, 0x4c41, 0x4d49, 0x4f4c, 0x5356, 0x5455, 0x554e, 0x5855, 0x6375, 0x6542, 0x7075, 0x756e, 0x7855, 0xa11e,
            0xa220, 0xfd4a, 0x9901, 0x9902]

def valid_extra(x, large):
    if len(x) + (20 if large else 0) > 65535:
        return False
    i = 0
    while i < len(x):
        if len(x) - i < 4:
            return False
        k, n = struct.unpack("<HH", x[i:i + 4])
        if k == 1 or k <= 31 or k in RESERVED or n > len(x) - i - 4:
            return False
        i += 4 + n
    return True

class C17(Check):
    pid = "C17"
    rule = ("start_file_aligned for alignments {0,1, powers of two, primes, non-powers, 65535, random} (thorough: all 0..4096 + 6000 random up to 65535) "
            "at preceding offsets hitting every residue of small alignments, with/without large_file, after 0..3 earlier "
            "entries; extra-data programs with record lists over reserved/unreserved ids, sizes 0..max, truncated tails, "
            "local-only / central-only / shared variants, lengths at the 16-bit limit.  Compared: return values and bytes "
            "with the model; oracle: data offset (from the bytes, and as reported by the reader) is a multiple of the "
            "alignment, content round-trips, local/central extra hold exactly what was supplied, invalid data is rejected.  "
            "non-trivial = padding needed or extra data present; distinct = distinct output")
    trusted = ["tools/strictzip.py"]
    assumptions = ["reserved-id table is the one in src/write.rs (translated into Gen/WriteGen.v); the oracle carries its own copy from APPNOTE"]

    def gen(self):
        r = self.rng
        progs, metas = [], []
        aligns = [0, 1, 2, 3, 4, 5, 6, 7, 8, 12, 16, 24, 31, 32, 33, 64, 100, 127, 128, 255, 256, 257, 512, 1000, 1024, 4096, 4097, 32768, 40000, 65521, 65535]
        if self.tier == "thorough":
            # every alignment up to 4096, then a dense random sample of the rest (each archive carries up to 64 KiB of padding)
            aligns = list(range(0, 4097)) + [r.randrange(4097, 65536) for _ in range(6000)] + [32768, 65521, 65535]
        else:
            aligns += [r.randrange(2, 65536) for _ in range(30)] + [r.randrange(2, 600) for _ in range(60)]
        for al in aligns:
            for rep in range(1 if self.tier == "thorough" else 2):
                pre = []
                for i in range(r.randrange(0, 3)):
                    pre += [("file", b"p" * r.randrange(1, 20), Opts()), ("write", b"x" * r.randrange(0, 40))]
                large = r.random() < 0.25
                content = b"aligned content %d" % al
                name = b"al" + b"n" * r.randrange(0, 9)
                pw = b"pw" if r.random() < 0.2 else None          # D21: alignment of an encrypted entry
                ops = pre + [("aligned", name, Opts(large=large, method=r.choice([0, 0, 8]), pw=pw), al), ("write", content), ("finish",)]
                progs.append(ops)
                metas.append(dict(k="aligned", align=al, name=name.hex(), content=content.hex(), idx=len(pre) // 2, pw=(pw or b"").hex(), haspw=pw is not None))
        # name length + padding beyond 65535 in sum (each fits its own 16-bit field): the reader adds the two lengths
        for nl in ((60000,) if self.tier == "quick" else (40000, 60000, 65000, 65535)):
            for rep in range(2 if self.tier == "quick" else 8):
                pre = [("file", b"p", Opts()), ("write", b"x" * r.randrange(0, 30000))]
                name = b"L" * nl
                content = b"long name aligned %d" % nl
                ops = pre + [("aligned", name, Opts(), 32768), ("write", content), ("finish",)]
                progs.append(ops)
                # (implementation only: the list-based model spends half a minute on a 60,000-byte name)
                metas.append(dict(k="aligned", align=32768, name=name.hex(), content=content.hex(), idx=1, pw="", haspw=False, impl_only=True))
        # extra-data programs
        def rec(kind, n):
            return struct.pack("<HH", kind, n) + bytes(r.randrange(256) for _ in range(n))
        for _ in range(400 if self.tier == "quick" else 10000):
            kinds = [r.choice([0xbeef, 0xcafe, 0x6666, 0x7a61, r.randrange(32, 65536)]) for _ in range(r.randrange(0, 4))]
            if r.random() < 0.3:
                kinds.append(r.choice([1, 0, 5, 31, 0x000a, 0x9901, 0x5455, 0x7075]))
                r.shuffle(kinds)
            local = b"".join(rec(k, r.choice([0, 1, 5, 40])) for k in kinds)
            if r.random() < 0.15:
                local = local[:max(0, len(local) - r.randrange(1, 4))] if local else b"\x01"
            if r.random() < 0.04:
                local = rec(0xbeef, r.choice([65531, 65515, 65516, 65511, 65512, 65510]))
            central = b"".join(rec(r.choice([0xbeef, 0xdead, 1, 9]), r.choice([0, 3])) for _ in range(r.randrange(0, 3)))
            variant = r.choice(["shared", "split", "local-only", "central-only"])
            large = r.random() < 0.3
            ops = [("extra", b"x", Opts(large=large, method=r.choice([0, 8]), pw=(b"pw" if r.random() < 0.15 else None))), ("write", local)]
            if variant == "shared":
                ops += [("endextra",)]
                exp_local, exp_central = local, local
            elif variant == "split":
                ops += [("endlocal",), ("write", central), ("endextra",)]
                exp_local, exp_central = local, central
            elif variant == "local-only":
                ops += [("endlocal",), ("endextra",)]
                exp_local, exp_central = local, b""
            else:
                ops = [("extra", b"x", Opts(large=large)), ("endlocal",), ("write", central), ("endextra",)]
                exp_local, exp_central = b"", central
            if r.random() < 0.25:
                # no end_extra_data: the next call (another entry, or finish) ends the extra data -- with the same validation
                variant += "/implicit"
                ops = ops[:-1] + r.choice([[("file", b"next", Opts()), ("write", b"n"), ("finish",)], [("finish",)], [("dir", b"nd", Opts()), ("finish",)]])
            else:
                ops += [("write", b"file data"), ("finish",)]
            progs.append(ops)
            ok = valid_extra(exp_local, large) and (variant.split("/")[0] in ("shared", "local-only") or valid_extra(exp_central, large))
            metas.append(dict(k="extra", local=exp_local.hex(), central=exp_central.hex(), valid=ok, large=large, variant=variant))
        # every third program over a sink that accepts each write only partially (never fails): extra data and padding
        # must land complete all the same
        plans = [bytes(r.choice([1, 2, 3, 7, 40]) for _ in range(r.randrange(30, 300))) if j % 3 == 2 and not metas[j].get("impl_only") else None for j in range(len(progs))]
        lines, outs = wprog.with_tables(self.exes["debug"], [dict(ops=o, plan=pl) for o, pl in zip(progs, plans)])
        cases = list(zip(lines, metas))
        # the reader's view of aligned entries
        for (l, m), o in zip(list(cases), outs):
            if m["k"] == "aligned":
                _, data = wprog.final_bytes(o)
                if data:
                    cases.append(("entry %s %d %d x%s 4096" % (hexs(data), m["idx"], 1 if m["haspw"] else 0, m["pw"]), dict(k="reread", align=m["align"], content=m["content"], impl_only=bool(m.get("impl_only")))))
        return cases

    def oracle(self, line, meta, out):
        if out is None or "PANIC" in out or out.startswith("ABORT") or out == "TIMEOUT":
            return "a call panicked or the process died: %s" % (out or "")[:160]
        k = meta["k"]
        if k == "reread":
            m = re.match(r"\[Ok \[(.*?)\] \[Ok x([0-9a-f]*)\]\]$", out)
            if not m:
                return "aligned entry cannot be read back: " + out[:120]
            f = re.sub(r"\[([0-9 ]+)\]", "T", m.group(1)).split()
            ds = int(f[12])
            if meta["align"] > 1 and ds % meta["align"] != 0:
                return "reader reports data_start %d, not a multiple of %d" % (ds, meta["align"])
            if m.group(2) != meta["content"]:
                return "content of the aligned entry does not round-trip"
            return None
        calls, data = wprog.final_bytes(out)
        if calls is None:
            return "unexpected output " + out[:100]
        fin_ok = any(isinstance(c, list) and c[0] == "Ok" and isinstance(c[1], str) and c[1].startswith("x") for c in calls[-1:])
        if k == "aligned":
            al = meta["align"]
            started = next((c for c in calls if isinstance(c, list) and len(c) == 2 and c[0] == "Ok" and c[1].isdigit()), None)
            call = calls[-3]
            if call[0] != "Ok":
                return None            # a request that cannot be honoured may be refused with an error
            if not fin_ok:
                return "aligned entry started but finish failed: %s" % calls[-1]
            listing, problems = strictzip.validate(data)
            if problems:
                return "archive with an aligned entry is not valid: " + "; ".join(problems[:2])
            e = listing["entries"][meta["idx"]]
            if al > 1 and e["data_start"] % al != 0:
                return "data of the aligned entry starts at %d, not a multiple of %d" % (e["data_start"], al)
            if e["content"] is not None and e["content"].hex() != meta["content"]:
                return "content of the aligned entry does not round-trip"
            return None
        # extra data
        errs = [c for c in calls if isinstance(c, list) and c[0] == "Err"]
        if not meta["valid"]:
            if not errs:
                return "invalid extra data (%s) was accepted" % meta["variant"]
            return None
        if errs or not fin_ok:
            return "valid extra data was rejected: %s" % (errs[:1] or calls[-1])
        listing, problems = strictzip.validate(data)
        if problems:
            return "archive with extra data is not valid: " + "; ".join(problems[:2])
        e = listing["entries"][0]
        lx = e["local_extra"]
        if meta["large"]:
            if lx[:4] != b"\x01\x00\x10\x00":
                return "large_file entry lacks its local ZIP64 reservation"
            lx = lx[20:]
        if lx.hex() != meta["local"]:
            return "local extra field holds %s, supplied %s" % (lx.hex()[:60], meta["local"][:60])
        cx = e["extra"]
        if cx.hex() != meta["central"]:
            return "central extra field holds %s, supplied %s" % (cx.hex()[:60], meta["central"][:60])
        return None

    def nontrivial(self, line, meta, out):
        return meta["k"] != "aligned" or meta["align"] > 1

CHECK = C17
