"""C05 — untrusted bytes never crash, hang or exhaust memory in the readers."""
import re, struct
import genzip
from genzip import Entry
from zvlib import Check, run_lines

def hexs(b):
    return "x" + b.hex()

K_HEAP = 400          # bytes per input byte allowed while opening (size_of::<ZipFileData>() + map entry + slack)
MS_LIMIT = 5000

class C05(Check):
    pid = "C05"
    rule = ("seed archives (all methods, ZipCrypto, AES, ZIP64, data descriptors, prefix junk) x every truncation point, "
            "every single-byte substitution (255 values) in the structural regions (local/central headers, end records), "
            "random multi-site mutations, arbitrary bytes, and structure-aware liars (counts/sizes/offsets at 0, 2^16+-1, "
            "2^32+-1, 2^64-1; AES extra with/without flag; method 99 anywhere; encrypted entries shorter than their crypto "
            "header; overrunning extra lengths).  Each input: open, by_index / by_index_decrypt / by_index_raw / by_name, "
            "all accessors, read to end, streaming reader, visitor, open-for-append (measured: panic, wall time, peak heap "
            "while opening) and the model's prediction of open / by_index outcomes.  non-trivial = input differs from a "
            "valid archive and is not rejected at the end-record search; distinct = distinct outcome vector")
    trusted = ["tools/genzip.py reference builder", "counting global allocator and wall clock of the harness"]
    assumptions = ["real heap and wall time are measured, not proved; panics inside flate2/bzip2/zstd would be seen by the harness but are outside the model",
                   "the model's totality theorems cover open/by_index/read of the seekable reader; stream and append totality are exercised here and modelled under C10/C13"]

    def seeds(self):
        txt = b"The quick brown fox. "
        S = []
        S.append(genzip.build([Entry(b"a.txt", txt), Entry(b"d/", b"", ext_attr=(0o40755 << 16) | 0x10), Entry(b"b", txt * 3, method=8)], comment=b"cm"))
        S.append(genzip.build([Entry(b"z64", txt, z64=("usize", "csize", "offset"), z64_local=True)], force_z64=True))
        S.append(genzip.build([Entry(b"enc", txt, password=b"pw"), Entry(b"dd", txt, method=8, dd="sig32")], prefix=b"JUNKJUNK"))
        S.append(genzip.build([Entry(b"aes", txt, password=b"pw", aes=(2, 1, bytes(8))), Entry(b"bz", txt * 2, method=12, extra_central=struct.pack("<HH4s", 0xcafe, 4, b"abcd"))]))
        return S

    def liars(self):
        txt = b"liar liar"
        out = []
        big = [0, 1, 0xfffe, 0xffff, 0x10000, 0xfffffffe, 0xffffffff, 0x100000000, 2**63 - 1, 2**63, 2**64 - 1]
        base, man = genzip.build([Entry(b"x", txt), Entry(b"y", txt, method=8)])
        e = base.rfind(b"PK\x05\x06")
        for v in big:                              # EOCD counts/sizes/offsets
            for off, fmt in ((8, "<H"), (10, "<H"), (12, "<I"), (16, "<I"), (20, "<H"), (4, "<H"), (6, "<H")):
                d = bytearray(base)
                d[e + off:e + off + struct.calcsize(fmt)] = struct.pack(fmt, v & (0xffff if fmt == "<H" else 0xffffffff))
                out.append(bytes(d))
        z, _ = genzip.build([Entry(b"x", txt, z64=("usize", "csize", "offset"))], force_z64="escape")
        zp = z.rfind(b"PK\x06\x06")
        lp = z.rfind(b"PK\x06\x07")
        for v in big:                              # ZIP64 record and locator fields, ZIP64 extra values
            for off in (24, 32, 40, 48, 16, 20, 4):
                d = bytearray(z); d[zp + off:zp + off + 8] = struct.pack("<Q", v); out.append(bytes(d))
            d = bytearray(z); d[lp + 8:lp + 16] = struct.pack("<Q", v); out.append(bytes(d))
            c = z.find(b"PK\x01\x02")
            x = z.find(struct.pack("<HH", 1, 24), c)
            for k in range(3):
                d = bytearray(z); d[x + 4 + 8 * k:x + 12 + 8 * k] = struct.pack("<Q", v); out.append(bytes(d))
        for v1 in big:                             # two ZIP64 fields lying at once: count x offset, count x size
            for v2 in big:
                d = bytearray(z); d[zp + 24:zp + 32] = struct.pack("<Q", v1); d[zp + 32:zp + 40] = struct.pack("<Q", v1)
                d[zp + 48:zp + 56] = struct.pack("<Q", v2); out.append(bytes(d))
                d = bytearray(z); d[zp + 32:zp + 40] = struct.pack("<Q", v1); d[zp + 40:zp + 48] = struct.pack("<Q", v2); out.append(bytes(d))
                d = bytearray(base); d[e + 8:e + 10] = struct.pack("<H", v1 & 0xffff); d[e + 10:e + 12] = struct.pack("<H", v1 & 0xffff)
                d[e + 16:e + 20] = struct.pack("<I", v2 & 0xffffffff); out.append(bytes(d))
        for v in big:                              # central header sizes / offsets / lengths
            c = base.find(b"PK\x01\x02")
            for off, fmt in ((20, "<I"), (24, "<I"), (42, "<I"), (28, "<H"), (30, "<H"), (32, "<H")):
                d = bytearray(base); d[c + off:c + off + struct.calcsize(fmt)] = struct.pack(fmt, v & (0xffff if fmt == "<H" else 0xffffffff)); out.append(bytes(d))
            for off, fmt in ((18, "<I"), (22, "<I"), (26, "<H"), (28, "<H")):       # local header
                d = bytearray(base); d[off:off + struct.calcsize(fmt)] = struct.pack(fmt, v & (0xffff if fmt == "<H" else 0xffffffff)); out.append(bytes(d))
        # AES extra with / without the encryption flag, method 99 in local, central and inside the AES extra, bad vendor/strength
        for flag in (0, 1):
            for inner in (0, 8, 99, 12, 93, 1):
                for (ver, strength, vid, ln) in ((1, 1, b"AE", 7), (2, 3, b"AE", 7), (3, 1, b"AE", 7), (2, 4, b"AE", 7), (2, 0, b"AE", 7), (1, 1, b"XX", 7), (1, 1, b"AE", 6), (1, 1, b"AE", 8)):
                    ax = struct.pack("<HHH2sBH", 0x9901, ln, ver, vid, strength, inner)
                    for payload in (b"", b"short", bytes(40)):
                        en = Entry(b"a", b"", payload=payload, usize=0, crc=0, extra_local=ax, extra_central=ax, flags_extra=flag)
                        en.method = 99
                        out.append(genzip.build([en])[0])
                        en2 = Entry(b"a", b"", payload=payload, usize=0, crc=0, extra_central=ax + struct.pack("<HHQ", 1, 8, 5), flags_extra=flag)
                        out.append(genzip.build([en2])[0])
        for m in (99, 1, 14, 65535):               # unsupported methods, local/central disagreement
            en = Entry(b"m", b"data", payload=b"data"); en.method = m; out.append(genzip.build([en])[0])
        for ln in (0, 5, 11, 12):                  # encrypted entries shorter than their crypto header
            en = Entry(b"e", b"", payload=bytes(ln), usize=0, crc=0, flags_extra=1); out.append(genzip.build([en])[0])
        for ex in (b"\x01\x00", b"\x01\x00\xff\xff", b"\x01\x00\x08\x00\x01", struct.pack("<HH", 0x9901, 7) + b"\x01", struct.pack("<HH", 5, 0xffff) + b"zz"):
            en = Entry(b"x", b"q", extra_central=ex, extra_local=ex); out.append(genzip.build([en])[0])
            en = Entry(b"x", b"q", extra_central=ex, z64=()); en.usize = 0xffffffff; out.append(genzip.build([en])[0])
        # a 32-bit field at the escape value WITHOUT a ZIP64 extra, next to a central extra field that fills its 16-bit length:
        # re-emitting such a record (append + finish / drop) has to add a ZIP64 block to an extra field with no room left
        for xl in (65515, 65520, 65524, 65531):
            ex = struct.pack("<HH", 0xcafe, xl - 4) + bytes(xl - 4)
            for off in (20, 24, 42):
                basex, _ = genzip.build([Entry(b"x", txt, extra_central=ex)])
                c = basex.find(b"PK\x01\x02")
                d = bytearray(basex); d[c + off:c + off + 4] = b"\xff\xff\xff\xff"; out.append(bytes(d))
        return out

    def gen(self):
        r = self.rng
        cases = []
        def add(d, kind):
            d = bytes(d)
            cases.append(("hostile " + hexs(d), dict(kind=kind, impl_only=True, n=len(d))))
            if kind == "liar" and len(d) > 60000:
                return           # 64 KiB extra fields: implementation only (the list-based model needs seconds per field walk)
            cases.append(("open " + hexs(d), dict(kind=kind, k="open")))
            for i in (0, 1):
                cases.append(("entry %s %d 0 x 64" % (hexs(d), i), dict(kind=kind, k="entry")))
                cases.append(("entry %s %d 1 x7077 64" % (hexs(d), i), dict(kind=kind, k="entry")))
        quick = self.tier == "quick"
        for si, (data, man) in enumerate(self.seeds()):
            add(data, "seed")
            pts = range(len(data)) if not quick else sorted(set(list(range(0, len(data), 3)) + list(range(max(0, len(data) - 70), len(data)))))
            for k in pts:
                add(data[:k], "truncate")
            regs = [(a, b) for (kd, a, b) in genzip.regions(data, man) if kd != "data"]
            pos = sorted(set(p for a, b in regs for p in range(a, min(b, a + 64))))
            for p in pos:
                vals = range(256) if not quick else sorted(set([0, 1, 0x7f, 0x80, 0xfe, 0xff, data[p] ^ 1, data[p] ^ 0x80, (data[p] + 1) & 0xff] + [r.randrange(256) for _ in range(2)]))
                for v in vals:
                    if v != data[p]:
                        d = bytearray(data); d[p] = v
                        add(d, "subst")
            for _ in range(150 if quick else 5000):
                d = bytearray(data)
                for _ in range(r.randrange(2, 6)):
                    p = r.choice(pos) if r.random() < 0.8 else r.randrange(len(d))
                    d[p] = r.choice([0, 0xff, r.randrange(256)])
                add(d, "multi")
        for d in self.liars():
            add(d, "liar")
        # AES entries whose declared compressed size is smaller than, equal to, or just above salt + verifier + MAC
        for strength, sl in ((1, 8), (2, 12), (3, 16)):
            for ver in (1, 2):
                data, man = genzip.build([Entry(b"a", b"0123456789abcdef0123", password=b"pw", aes=(ver, strength, bytes(range(sl))))])
                m = man["entries"][0]
                for sz in (range(0, sl + 12 + 6) if not quick else (0, 1, sl + 1, sl + 2, sl + 3, sl + 7, sl + 11, sl + 12, sl + 13)):
                    d = bytearray(data)
                    d[m["central_start"] + 20:m["central_start"] + 24] = sz.to_bytes(4, "little")
                    d[m["header_start"] + 18:m["header_start"] + 22] = sz.to_bytes(4, "little")
                    add(d, "aes-size")
        # end records in unusual places: an end record within the first bytes of the input, followed by something that
        # looks like a ZIP64 locator (and optionally a ZIP64 end record) where the reader looks for one -- relative to
        # the END of the input --, for every small offset and comment length
        import struct
        for p0 in list(range(0, 24)) + [40, 60, 76, 77]:
            for clen in (0, 1, 5):
                eocd = struct.pack("<IHHHHIIH", 0x06054b50, 0, 0, r.choice([0, 1, 0xffff]), r.choice([0, 1, 0xffff]), r.choice([0, 46, 0xffffffff]), r.choice([0, p0, 0xffffffff]), clen)
                for zoff in (0, p0, 1 << 40):
                    loc = struct.pack("<IIQI", 0x07064b50, 0, zoff, 1)
                    tail = bytes(22 + clen - 0)          # so that End - (20 + 22 + clen) is where `loc` starts
                    add(bytes(r.randrange(1, 256) for _ in range(p0)) + eocd + loc + tail[:22 + clen - 22] + bytes(22), "eocd-early")
                    add(bytes(p0) + eocd + bytes(clen) + loc + eocd[:4] + bytes(18), "eocd-early")
                    z64 = struct.pack("<IQHHIIQQQQ", 0x06064b50, 44, 45, 45, 0, 0, 1, 1, 46, 0)
                    add(z64 + bytes(p0) + loc + eocd + bytes(clen), "eocd-early")
        for _ in range(200 if quick else 20000):
            n = r.choice([0, 1, 21, 22, 23, 46, 100, 300])
            d = bytearray(r.randrange(256) for _ in range(n))
            if n >= 22 and r.random() < 0.7:
                p = r.randrange(0, n - 21); d[p:p + 4] = b"PK\x05\x06"
            add(d, "random")
        return cases

    def oracle(self, line, meta, out):
        if out is None or out.startswith("ABORT") or out == "TIMEOUT":
            return "implementation died or hung: %s" % out
        if "PANIC" in out:
            return "panic: " + re.search(r"\[PANIC[^\]]*\]", out).group(0)
        if line.startswith("hostile"):
            m = re.search(r"total_peak=(\d+) open_peak=(\d+) len=(\d+) ms=(\d+)\]$", out)
            if not m:
                return "unexpected output " + out[-80:]
            total, peak, ln, ms = map(int, m.groups())
            if total > K_HEAP * ln + (96 << 20):
                return "peak heap over the whole session (%d bytes) on a %d-byte input" % (total, ln)
            if peak > K_HEAP * ln + (1 << 20):
                return "memory while opening (%d bytes) exceeds %d x input length (%d)" % (peak, K_HEAP, ln)
            if ms > MS_LIMIT:
                return "took %d ms on a %d-byte input" % (ms, ln)
        return None

    def nontrivial(self, line, meta, out):
        return meta["kind"] != "seed" and "MNoCde" not in (out or "") and "MInvalidZipHeader" not in (out or "")

CHECK = C05
