"""C03 — well-formed archives from other producers are read faithfully."""
import binascii, io, os, re, struct, subprocess, zipfile
import struct
import genzip
from genzip import Entry
from zvlib import Check, run_lines, CACHE
from props.c04 import parse_entry_out

def hexs(b):
    return "x" + b.hex()

def py_mode(made_by, attr):
    if attr == 0:
        return None
    sysid = made_by >> 8
    if sysid == 3:
        return attr >> 16
    if sysid == 0:
        mode = (0o40000 | 0o775) if attr & 0x10 else (0o100000 | 0o664)
        if attr & 1:
            mode &= 0o555
        return mode
    return None

def py_decode(raw, utf8):
    return raw.decode("utf-8", "replace") if utf8 else raw.decode("cp437")

class C03(Check):
    pid = "C03"
    rule = ("archives from the independent builder tools/genzip.py with randomised layout (0..8 entries; stored/deflate/"
            "bzip2/zstd; data descriptors with/without signature, 32/64-bit; ZIP64 values forced in every subset of "
            "{usize,csize,offset} before or after unknown extras; local/central extra and name-length disagreement; "
            "gaps and permuted local order; made-by DOS/Unix/other, any attributes and DOS time bits; file and archive "
            "comments; 0..64 KiB prefix; trailing garbage without ZIP64; duplicate names; unsupported methods), from "
            "CPython zipfile and from Info-ZIP zip.  Every accessor and the content of every entry compared with the "
            "producer's manifest and with the model.  non-trivial = archive with >= 1 entry and at least one non-default "
            "layout feature; distinct = distinct archive bytes")
    trusted = ["tools/genzip.py (APPNOTE reading), CPython zipfile, Info-ZIP zip as independent producers"]
    assumptions = ["well-formedness of the generated archives is the builder's reading of APPNOTE, cross-judged by zipfile/unzip accepting them"]

    def rand_entry(self, i, zst):
        r = self.rng
        content = r.choice([b"", b"x", b"hello world " * r.randrange(1, 20), bytes(r.randrange(256) for _ in range(r.randrange(1, 400)))])
        method = r.choice([0, 0, 8, 8, 12, 93])
        kw = {}
        if method == 93:
            content = b"zstd payload " * 9
            kw["payload"] = zst
        name = r.choice([b"f%d.txt" % i, b"dir%d/" % i, b"d/e/f%d" % i, "näme%d".encode(), b"dup", b"sp ace%d" % i, b"\xff\xfe%d" % i])
        utf8 = r.random() < 0.4
        if name.endswith(b"/"):
            content, method = b"", 0
            kw.pop("payload", None)
        made = r.choice([(3 << 8) | 20, (0 << 8) | 20, (3 << 8) | 63, (7 << 8) | 20, (19 << 8) | 45, 20])
        attr = r.choice([0, 0o100644 << 16, 0o100755 << 16, 0o40755 << 16 | 0x10, 0x20, 0x11, 0x01, 0xffffffff, r.randrange(1 << 32)])
        xl = r.choice([b"", struct.pack("<HH3s", 0xcafe, 3, b"abc"), struct.pack("<HHI", 0x5455, 4, 123456)])
        xc = r.choice([b"", struct.pack("<HH2s", 0xbeef, 2, b"zz"), struct.pack("<HH", 0x7075, 0)])
        z64 = tuple(k for k in ("usize", "csize", "offset") if r.random() < 0.25)
        dd = r.choice([None, None, None, "sig32", "nosig32", "sig64"])
        e = Entry(name, content, method=method, utf8=utf8, date_time=(r.randrange(65536), r.randrange(65536)), made_by=made,
                  ext_attr=attr, extra_local=xl, extra_central=xc, comment=r.choice([b"", b"file comment", b"\x80\x81"]),
                  dd=dd, z64=z64, z64_local=(r.random() < 0.15 and dd is None), gap_before=r.choice([b"", b"", b"GAP!"]),
                  local_name=(name + b"X" if r.random() < 0.05 else None), **kw)
        e.z64_last = r.random() < 0.5
        return e

    def gen(self):
        r = self.rng
        zs = run_lines(self.exes["debug"], ["zstd_compress %s 3" % hexs(b"zstd payload " * 9)], shards=1)[0]
        zst = bytes.fromhex(zs[1:])
        cases = []
        self.ncontent = 0
        def add_archive(data, man, prod):
            am = dict(prod=prod, man=man)
            cases.append(("open " + hexs(data), dict(k="open", **am)))
            for i in range(man["n"] + 1):
                cases.append(("entry %s %d 0 x %d" % (hexs(data), i, r.choice([1, 7, 4096])), dict(k="entry", i=i, **am)))
            names = set(bytes.fromhex(m["name"]) if "name" in m else py_decode(bytes.fromhex(m["name_raw"]), m["utf8"]).encode() for m in man["entries"])
            for nm in sorted(names) + [b"no such name"]:
                cases.append(("byname %s %s" % (hexs(data), hexs(nm)), dict(k="byname", name=nm.hex(), **am)))
        n = 250 if self.tier == "quick" else 6000
        for a in range(n):
            k = r.choice([0, 1, 1, 2, 3, 5, 8])
            ents = [self.rand_entry(i, zst) for i in range(k)]
            order = list(range(k)); r.shuffle(order) if r.random() < 0.3 else None
            prefix = r.choice([b"", b"", b"#!/bin/sh\n", bytes(r.randrange(256) for _ in range(r.choice([1, 100, 5000, 65536])))])
            fz = r.choice([False, False, False, True, "escape"])
            trail = b"" if fz else r.choice([b"", b"", b"garbage after the comment", bytes(300)])
            comment = r.choice([b"", b"archive comment", bytes(r.randrange(32, 127) for _ in range(200))])
            if any(e.method not in (0, 8, 12, 93) for e in ents):
                pass
            data, man = genzip.build(ents, prefix=prefix, comment=comment, force_z64=fz, trail=trail, order=order)
            add_archive(data, man, "genzip")
        # end-record search window edges: maximal comments, comment + trailing garbage up to the limit
        for clen, tlen in ((65535, 0), (65534, 0), (65514, 0), (65513, 0), (65512, 0), (60000, 5535), (60000, 5536), (0, 65535), (10, 65525), (10, 65526)):
            data, man = genzip.build([Entry(b"w", b"window")], comment=b"c" * clen, trail=b"t" * tlen)
            if tlen and clen + tlen > 65535:
                continue            # beyond what the format lets a reader find
            add_archive(data, man, "genzip-window")
        # CP437 names and comments around the ASCII boundary: a lone 0x7f / 0x80 / 0x81 / 0xff among ASCII bytes
        for hb in (0x7f, 0x80, 0x81, 0xa0, 0xff):
            ents = [Entry(bytes([hb]) + b"a.txt", b"x"), Entry(b"mid" + bytes([hb]) + b".bin", b"y", comment=b"c" + bytes([hb])),
                    Entry(b"plain", b"z", comment=bytes([hb]))]
            data, man = genzip.build(ents, comment=bytes([hb]))
            add_archive(data, man, "genzip-cp437-edge")
        # every CP437 high byte once, in names and in entry comments (names of 16 bytes each; unflagged entries)
        hi = bytes(range(0x80, 0x100))
        ents = [Entry(b"n-" + hi[i:i + 16], b"c%d" % i, comment=hi[i:i + 16]) for i in range(0, 128, 16)]
        data, man = genzip.build(ents, comment=hi[:40])
        add_archive(data, man, "genzip-cp437-all")
        # local name length + local extra length beyond 65535 in sum (each fits its own field): the reader adds the two
        # (implementation only: 64 KiB extra fields cost the list-based model seconds per walk)
        for nl, xl in ((16, 65520), (40000, 30000), (65535, 65535)):
            ex = struct.pack("<HH", 0xcafe, xl - 4) + bytes(xl - 4)
            data, man = genzip.build([Entry(b"n" * nl, b"payload behind a long header", extra_local=ex), Entry(b"after", b"next", method=8)])
            for i in (0, 1):
                cases.append(("entry %s %d 0 x 4096" % (hexs(data), i), dict(k="entry", i=i, prod="genzip-longheader", man=man, impl_only=True)))
        # unsupported methods: must fail per entry, not per archive
        for m in (1, 6, 9, 14, 95, 98):
            e = Entry(b"odd", b"payload", payload=b"payload"); e.method = m
            data, man = genzip.build([Entry(b"ok1", b"fine"), e, Entry(b"ok2", b"also fine", method=8)])
            man["entries"][1]["unsupported"] = True
            add_archive(data, man, "genzip-unsupported")
        # CPython zipfile as producer
        for a in range(30 if self.tier == "quick" else 400):
            bio = io.BytesIO()
            pre = r.choice([b"", b"junk" * 10])
            bio.write(pre)
            ents = []
            with zipfile.ZipFile(bio, "a" if pre else "w") as zf:
                zf.comment = r.choice([b"", b"py comment"])
                for i in range(r.randrange(0, 5)):
                    zi = zipfile.ZipInfo("py%d/%s.txt" % (a, "x" * i), date_time=(1980 + r.randrange(100), 1 + r.randrange(12), 1 + r.randrange(28), r.randrange(24), r.randrange(60), 2 * r.randrange(30)))
                    zi.compress_type = r.choice([zipfile.ZIP_STORED, zipfile.ZIP_DEFLATED, zipfile.ZIP_BZIP2])
                    zi.external_attr = r.choice([0o100600 << 16, 0o100755 << 16, 0])
                    zi.comment = r.choice([b"", b"c"])
                    c = bytes(r.randrange(256) for _ in range(r.randrange(0, 300)))
                    with zf.open(zi, "w", force_zip64=(r.random() < 0.3)) as f:
                        f.write(c)
                    ents.append((zi, c))
            data = bio.getvalue()
            man = dict(n=len(ents), offset=None, comment=None, entries=[
                dict(name=zi.filename.encode().hex(), content=c.hex(), crc=binascii.crc32(c) & 0xffffffff, usize=len(c)) for zi, c in ents], light=True)
            add_archive(data, man, "zipfile")
        # exactly 65,535 entries without ZIP64 records (CPython writes those only above that count): the 16-bit count is the
        # real value, not an escape.  Implementation only (the list-based model is quadratic in the entry count).
        for cnt, pre, com in ((65535, b"", b""), (65534, b"", b""), (65535, b"prepended junk", b"with a comment")):
            bio = io.BytesIO()
            bio.write(pre)
            with zipfile.ZipFile(bio, "a" if pre else "w") as zf:
                zf.comment = com
                for i in range(cnt):
                    zf.writestr(zipfile.ZipInfo("n%d" % i), b"")
            data = bio.getvalue()
            cases.append(("open " + hexs(data), dict(k="open-count", n=cnt, comment=com.hex(), impl_only=True)))
            cases.append(("byname %s %s" % (hexs(data), hexs(b"n%d" % (cnt - 1))), dict(k="byname-count", impl_only=True)))
        # Info-ZIP
        d = os.path.join(CACHE, "c03_infozip")
        os.makedirs(d, exist_ok=True)
        for k, extra in enumerate([[], ["-fd"], ["-fz"], ["-0"], ["-9", "-fd", "-fz"]]):
            files = []
            for j in range(3):
                fn = os.path.join(d, "iz%d_%d.txt" % (k, j))
                c = (b"info-zip %d %d\n" % (k, j)) * (j * 7 + 1)
                open(fn, "wb").write(c)
                files.append((fn, c))
            z = os.path.join(d, "a%d.zip" % k)
            if os.path.exists(z):
                os.remove(z)
            p = subprocess.run(["zip", "-q", "-j", "-X", "-z"] + extra + [z] + [f for f, _ in files], input=b"iz comment\n", capture_output=True)
            if p.returncode == 0 and subprocess.run(["unzip", "-tqq", z], capture_output=True).returncode == 0:
                data = open(z, "rb").read()
                man = dict(n=3, offset=0, comment=None, light=True, entries=[
                    dict(name=os.path.basename(fn).encode().hex(), content=c.hex(), crc=binascii.crc32(c) & 0xffffffff, usize=len(c)) for fn, c in files])
                add_archive(data, man, "infozip" + "".join(extra))
        return cases

    def oracle(self, line, meta, out):
        if out is None or "PANIC" in out or out.startswith("ABORT") or out == "TIMEOUT":
            return "implementation did not return: %s" % (out or "")[:120]
        k = meta["k"]
        if k == "open-count":
            m = re.match(r"\[Ok \[(\d+) x([0-9a-f]*) (\d+) ", out)
            if not m:
                return "well-formed archive with %d entries and no ZIP64 records rejected: %s" % (meta["n"], out[:120])
            if int(m.group(3)) != meta["n"] or m.group(2) != meta["comment"]:
                return "entry count / comment %s %s, producer wrote %d %s" % (m.group(3), m.group(2), meta["n"], meta["comment"])
            return None
        if k == "byname-count":
            return None if out.startswith("[Ok") else "last entry of a 65,535-entry archive not found by name: " + out[:100]
        man = meta["man"]
        if k == "open":
            m = re.match(r"\[Ok \[(\d+) x([0-9a-f]*) (\d+) ", out)
            if not m:
                return "well-formed archive rejected: " + out[:120]
            if int(m.group(3)) != man["n"]:
                return "entry count %s, producer wrote %d" % (m.group(3), man["n"])
            if man.get("offset") is not None and int(m.group(1)) != man["offset"]:
                return "offset() = %s, prepended data is %d bytes" % (m.group(1), man["offset"])
            if man.get("comment") is not None and m.group(2) != man["comment"]:
                return "archive comment differs"
            return None
        if k == "entry":
            i = meta["i"]
            if i >= man["n"]:
                return None if out == "[Err [NotFound]]" else "index out of range: expected not-found, got " + out[:80]
            e = man["entries"][i]
            if e.get("unsupported"):
                return None if out == "[Err [Unsupported MMethodNotSupported]]" else "unsupported method: expected a clean per-entry error, got " + out[:80]
            kind, mm, rd = parse_entry_out(out)
            if kind != "Ok":
                return "entry %d of a well-formed archive failed: %s" % (i, out[:120])
            if man.get("light"):
                if mm[0][1:] != e["name"]:
                    return "name differs from the producer's"
                if int(mm[5]) != e["usize"] or int(mm[6]) != e["crc"]:
                    return "size/CRC differ from the producer's"
            else:
                raw = bytes.fromhex(e["name_raw"])
                want = [py_decode(raw, e["utf8"]).encode().hex(), e["name_raw"], py_decode(bytes.fromhex(e["comment"]), e["utf8"]).encode().hex(),
                        str(e["inner_method"] if e["aes"] else e["method"]), str(e["csize"]), str(e["usize"]), str(e["crc"])]
                got = [mm[0][1:], mm[1][1:], mm[2][1:], mm[3], mm[4], mm[5], mm[6]]
                if got != want:
                    return "metadata differs from the central directory: got %s want %s" % (got, want)
                d, t = e["date"], e["time"]
                if mm[7] != "T%d_%d_%d_%d_%d_%d" % ((d >> 9) + 1980, (d >> 5) & 15, d & 31, t >> 11, (t >> 5) & 63, (t & 31) * 2):
                    return "timestamp differs: " + mm[7]
                pm = py_mode(e["made_by"], e["ext_attr"])
                if mm[8] != ("NONE" if pm is None else str(pm)):
                    return "unix_mode %s, attribute mapping says %s" % (mm[8], pm)
                if mm[9][1:] != e["extra"]:
                    return "extra data not returned verbatim"
                if [int(mm[10]), int(mm[11]), int(mm[12])] != [e["header_start"], e["central_start"], e["data_start"]]:
                    return "offsets differ: got %s want %s" % (mm[10:13], [e["header_start"], e["central_start"], e["data_start"]])
                if [int(mm[13]), int(mm[14])] != [(e["made_by"] & 0xff) // 10, (e["made_by"] & 0xff) % 10]:
                    return "version_made_by differs"
            if e["content"] is not None:
                r2 = re.match(r"\[Ok x([0-9a-f]*)\]", rd)
                if not r2 or r2.group(1) != e["content"]:
                    return "content differs from the original bytes: " + rd[:80]
            return None
        if k == "byname":
            nm = bytes.fromhex(meta["name"])
            idx = None
            for i, e in enumerate(man["entries"]):
                dn = bytes.fromhex(e["name"]) if "name" in e else py_decode(bytes.fromhex(e["name_raw"]), e["utf8"]).encode()
                if dn == nm:
                    idx = i
            if idx is None:
                return None if out == "[Err [NotFound]]" else "absent name: expected not-found, got " + out[:80]
            e = man["entries"][idx]
            if e.get("unsupported"):
                return None
            if "central_start" in e:
                return None if out == "[Ok %d]" % e["central_start"] else "lookup by name did not return the last entry with that name: " + out[:60]
            return None if out.startswith("[Ok ") else "lookup by name failed: " + out[:80]
        return None

    def nontrivial(self, line, meta, out):
        return "man" not in meta or meta["man"]["n"] >= 1

CHECK = C03
