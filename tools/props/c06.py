"""C06 — sanitised entry paths can never escape the extraction root."""
import itertools, posixpath, re
from zvlib import Check, run_lines

def hexs(b):
    return "x" + b.hex()

def unsafe(name: bytes) -> bool:
    if b"\0" in name or name.startswith(b"/"):
        return True
    n = posixpath.normpath(name.decode("utf-8", "surrogateescape")) if name else "."
    return n == ".." or n.startswith("../")

def py_mangled(name: bytes) -> bytes:
    cut = name.split(b"\0")[0].replace(b"\\", b"/")
    return b"/".join(p for p in cut.split(b"/") if p not in (b"", b".", b".."))

class C06(Check):
    pid = "C06"
    rule = ("every string over {a . / \\ NUL} up to length L (quick L=7, thorough L=9), random component "
            "sequences (<=6 of normal/./../empty, both separators, optional NUL) and random Unicode/control names "
            "up to 64 KiB; through ZipFile and the streaming reader's accessors.  non-trivial = enclosed_name "
            "rejects, or mangled_name differs from the name; distinct = distinct (enclosed, mangled, components)")
    trusted = ["CPython posixpath.normpath as the independent lexical-resolution oracle"]
    assumptions = ["std::path::Path::components (Unix) is modelled by Spec/PathSpec.v and compared with std on every case",
                   "host path semantics are Unix; symlinks already present under the base are outside a lexical statement"]

    def gen(self):
        r = self.rng
        L = 7 if self.tier == "quick" else 9
        cases = []
        alpha = [b"a", b".", b"/", b"\\", b"\0"]
        for l in range(L + 1):
            for t in itertools.product(alpha, repeat=l):
                n = b"".join(t)
                cases.append(("path " + hexs(n), {"n": n.hex()}))
        comps = [b"ab", b".", b"..", b"", b"c", b"...", b". ", b"..a"]
        for _ in range(4000 if self.tier == "quick" else 100000):
            k = r.randrange(0, 7)
            parts = [r.choice(comps) for _ in range(k)]
            n = b""
            if r.random() < 0.3:
                n += r.choice([b"/", b"\\", b"//", b"./", b"../"])
            for i, p in enumerate(parts):
                n += p + (r.choice([b"/", b"\\", b"//"]) if i + 1 < len(parts) or r.random() < 0.3 else b"")
            if r.random() < 0.3 and n:
                i = r.randrange(len(n) + 1)
                n = n[:i] + b"\0" + n[i:]
            cases.append(("path " + hexs(n), {"n": n.hex()}))
        for i in range(300 if self.tier == "quick" else 3000):
            ln = r.choice([1, 5, 40, 300, 5000]) if i % 50 else 65000
            s = "".join(chr(r.choice([r.randrange(1, 128), r.randrange(128, 0x800), r.randrange(0x800, 0xd800),
                                      r.randrange(0xe000, 0x10000), r.randrange(0x10000, 0x110000), 0x2f, 0x2e, 0x5c]))
                        for _ in range(ln))
            n = s.encode("utf-8")[:65535]
            n = n.decode("utf-8", "ignore").encode("utf-8")
            cases.append(("path " + hexs(n), {"n": n.hex()}))
        # raw names as foreign producers store them: CP437 bytes (flag clear) and invalid UTF-8 (flag set) decode to
        # strings whose byte positions differ from the raw ones -- around NUL, separators and dots
        dec = lambda flag, raw: (raw.decode("utf-8", "replace") if flag else raw.decode("cp437")).encode("utf-8")
        hi = [b"\x82", b"\x80", b"\xff", b"\xc3", b"\xe2\x82", b"caf\x82"]
        sp = [b"/", b"\\", b"\0", b".", b"..", b"a", b"/x\0y", b"\0/.."]
        for flag in (0, 1):
            for h in hi:
                for x in sp:
                    for y in sp:
                        for n in (h + x + y, x + h + y, x + y + h, b"dir/" + h + x + b"t" + y):
                            cases.append(("pathraw %d %s" % (flag, hexs(n)), {"n": dec(flag, n).hex()}))
            for _ in range(300 if self.tier == "quick" else 20000):
                n = b"".join(r.choice(hi + sp + [b"b", b"c/"]) for _ in range(r.randrange(1, 9)))
                cases.append(("pathraw %d %s" % (flag, hexs(n)), {"n": dec(flag, n).hex()}))
        return cases

    def oracle(self, line, meta, out):
        if out is None or not out.startswith("[") or out.startswith("[PANIC"):
            return "implementation did not return: %s" % out
        if "STREAM" in out:
            return "streaming accessor differs from the seekable one: " + out[-40:]
        m = re.match(r"\[(NONE|x[0-9a-f]*) x([0-9a-f]*) ", out)
        if not m:
            return "unexpected output " + out[:80]
        name = bytes.fromhex(meta["n"])
        enc = None if m.group(1) == "NONE" else bytes.fromhex(m.group(1)[1:])
        man = bytes.fromhex(m.group(2))
        if enc is not None:
            if unsafe(name):
                return "enclosed_name returned a path for an unsafe name"
            if enc != name:
                return "enclosed_name changed the name"
        elif not unsafe(name):
            return "enclosed_name rejected a safe name"
        if man != py_mangled(name):
            return "mangled_name = %r, expected %r" % (man, py_mangled(name))
        if man.startswith(b"/") or any(p in (b"", b".", b"..") for p in man.split(b"/") if man):
            return "mangled_name has a special component"
        return None

    def nontrivial(self, line, meta, out):
        m = re.match(r"\[(NONE|x[0-9a-f]*) x([0-9a-f]*) ", out or "")
        return bool(m) and (m.group(1) == "NONE" or m.group(2) != meta["n"])

    def extra_checks(self, exes, model):
        if self.tier != "thorough":
            return []
        outs = run_lines(exes["debug"], ["path_sweep 10"], shards=1, timeout=3000)
        self.notes.append("closed-form sweep over all strings of length <= 10: %s" % outs[0])
        if not (outs[0] or "").startswith("[OK"):
            m = re.match(r"\[FAIL (x[0-9a-f]*) ", outs[0] or "")
            return [(dict(request="path " + (m.group(1) if m else "?"), result=outs[0]), "exhaustive sweep failed")]
        return []

CHECK = C06
