"""C04 — a read that completes successfully returned uncorrupted data."""
import binascii, re
import genzip
from genzip import Entry
from zvlib import Check, run_lines

def hexs(b):
    return "x" + b.hex()

def parse_entry_out(out):
    """-> (kind, meta list or None, read outcome string or None)"""
    if out is None:
        return ("NONE", None, None)
    m = re.match(r"\[Ok \[(.*?)\] (\[.*\])\]$", out)
    if not m:
        return (out.split()[0].strip("[]"), None, None)
    # meta has a nested [time] list: split carefully
    meta = re.sub(r"\[([0-9 ]+)\]", lambda t: "T" + t.group(1).replace(" ", "_"), m.group(1)).split()
    return ("Ok", meta, m.group(2))

class C04(Check):
    pid = "C04"
    rule = ("seed archives (stored/deflate/bzip2/zstd; plain, ZipCrypto, AE-1, AE-2) x every single-bit flip of each "
            "entry's data region and of its central and local CRC fields, random multi-byte damage, truncated and "
            "swapped payloads, x caller buffer sizes {1,2,7,4096, zero-length reads interleaved}; seekable reader "
            "(by_index / by_index_decrypt) and read_zipfile_from_stream.  non-trivial = damaged archive on which the "
            "entry opens (the read itself decides); distinct = distinct implementation output")
    trusted = ["CPython zlib.crc32 as the independent checksum", "tools/genzip.py reference builder"]
    assumptions = ["decompressors are outside the model (their arms are compared up to the metadata; the oracle still judges the bytes)",
                   "corruption is detected up to CRC-32 collisions (format-inherent)"]

    def seeds(self):
        zs = run_lines(self.exes["debug"], ["zstd_compress %s 3" % hexs(b"zstd payload " * 5)], shards=1)[0]
        zst = bytes.fromhex(zs[1:])
        txt = b"The quick brown fox jumps over the lazy dog. "
        S = []
        S.append(("plain", [Entry(b"s.txt", txt), Entry(b"d.txt", txt * 3, method=8)], None))
        S.append(("bz", [Entry(b"b.txt", txt * 2, method=12), Entry(b"e", b"")], None))
        S.append(("zstd", [Entry(b"z", b"zstd payload " * 5, method=93, payload=zst)], None))
        S.append(("dd", [Entry(b"dd", txt, method=8, dd="sig32"), Entry(b"t", b"x")], None))
        S.append(("zc", [Entry(b"c1", txt, password=b"pw"), Entry(b"c2", txt * 2, method=8, password=b"pw")], b"pw"))
        S.append(("ae1", [Entry(b"a1", txt, password=b"pw", aes=(1, 1, bytes(range(8)))),
                          Entry(b"a1d", txt * 2, method=8, password=b"pw", aes=(1, 3, bytes(range(16))))], b"pw"))
        S.append(("ae2", [Entry(b"a2", txt, password=b"pw", aes=(2, 2, bytes(range(12)))),
                          Entry(b"a2d", txt * 2, method=8, password=b"pw", aes=(2, 3, bytes(range(16))))], b"pw"))
        # unencrypted entries that carry a (meaningless) WinZip-AES extra record marked AE-2: the AE-2 exemption from the
        # CRC check belongs to entries that are actually AES-encrypted, not to whatever the extra field claims
        import struct
        aesx = lambda m: struct.pack("<HHH2sBH", 0x9901, 7, 2, b"AE", 3, m)
        # (in the local header only: with the record in the central directory the seekable reader asks for a password)
        S.append(("fake-ae2-local", [Entry(b"g0", txt, extra_local=aesx(0)), Entry(b"g8", txt * 2, method=8, extra_local=aesx(8))], None))
        return S

    def gen(self):
        r = self.rng
        cases = []
        bufs = [1, 2, 7, 4096, 0]
        nb = 0
        for sname, ents, pw in self.seeds():
            data, man = genzip.build(ents, comment=b"c")
            def add(d, idx, kind):
                nonlocal nb
                b = bufs[nb % len(bufs)]; nb += 1
                m = man["entries"][idx]
                meta = dict(seed=sname, idx=idx, kind=kind, ae2=(m["aes"] and sname == "ae2"), content=m["content"], crc=m["crc"],
                            damaged=(kind != "intact"))
                cases.append(("entry %s %d %d %s %d" % (hexs(d), idx, 1 if pw else 0, hexs(pw or b""), b), meta))
            for idx, m in enumerate(man["entries"]):
                for b in bufs:
                    add(data, idx, "intact")
                ds, de = m["data_start"], m["data_start"] + m["csize"]
                spots = list(range(ds, de)) + list(range(m["central_start"] + 16, m["central_start"] + 20)) + \
                    list(range(m["header_start"] + 14, m["header_start"] + 18))
                if self.tier == "quick" and len(spots) > 70:
                    spots = spots[:20] + r.sample(spots[20:-8], 40) + spots[-8:]
                for p in spots:
                    for bit in range(8):
                        d = bytearray(data); d[p] ^= 1 << bit
                        add(bytes(d), idx, "bitflip@%d.%d" % (p, bit))
                for _ in range(150 if self.tier == "quick" else 3000):
                    d = bytearray(data)
                    for _ in range(r.randrange(1, 5)):
                        p = r.randrange(ds, max(ds + 1, de)) if de > ds else r.randrange(len(d))
                        d[p] = r.randrange(256)
                    add(bytes(d), idx, "multi")
                # declared CRC replaced by special values (central and local copies)
                for val in (0, 0xffffffff, 1, m["crc"] ^ 0xffffffff):
                    d = bytearray(data)
                    d[m["central_start"] + 16:m["central_start"] + 20] = val.to_bytes(4, "little")
                    d[m["header_start"] + 14:m["header_start"] + 18] = val.to_bytes(4, "little")
                    add(bytes(d), idx, "crc=%08x" % val)
                    if pw is None and sname != "dd":
                        cases.append(("stream_all %s %d" % (hexs(bytes(d)), r.choice(bufs)), dict(kind="stream-crc", seed=sname, impl_only=True)))
                # truncated payload: cut k bytes out of the data region, keeping the declared sizes
                for k in (1, 2, 5, m["csize"] // 2):
                    if 0 < k <= m["csize"]:
                        d = data[:de - k] + data[de:]
                        add(d, idx, "truncate%d" % k)
            # the same through read_exact(k) followed by read_to_end (k = 0, everything, half): the last call may add nothing
            for idx, m in enumerate(man["entries"]):
                us = len(bytes.fromhex(m["content"]))
                variants = [(data, "intact")]
                ds, de = m["data_start"], m["data_start"] + m["csize"]
                spots = list(range(ds, de)) + list(range(m["central_start"] + 16, m["central_start"] + 20)) + list(range(m["header_start"] + 14, m["header_start"] + 18))
                for p_ in (spots if len(spots) <= 24 else r.sample(spots, 24)):
                    d = bytearray(data); d[p_] ^= 1 << r.randrange(8)
                    variants.append((bytes(d), "bitflip@%d" % p_))
                for val in (1, 0xffffffff, m["crc"] ^ 1):
                    d = bytearray(data)
                    d[m["central_start"] + 16:m["central_start"] + 20] = val.to_bytes(4, "little")
                    d[m["header_start"] + 14:m["header_start"] + 18] = val.to_bytes(4, "little")
                    variants.append((bytes(d), "crc=%08x" % val))
                for d, kind in variants:
                    for k in sorted(set([0, us, us // 2])):
                        meta = dict(seed=sname, idx=idx, kind=kind + "/rte%d" % k, ae2=(m["aes"] and sname == "ae2"), content=m["content"], crc=m["crc"],
                                    damaged=(kind != "intact"), impl_only=True)
                        cases.append(("entry %s %d %d %s %d" % (hexs(d), idx, 1 if pw else 0, hexs(pw or b""), 1000000 + k), meta))
            if len(man["entries"]) == 2:      # swapped payloads (same lengths not required: headers keep their sizes)
                m0, m1 = man["entries"]
                d = bytearray(data)
                n = min(m0["csize"], m1["csize"])
                a, b = m0["data_start"], m1["data_start"]
                d[a:a + n], d[b:b + n] = data[b:b + n], data[a:a + n]
                add(bytes(d), 0, "swap"); add(bytes(d), 1, "swap")
            # a transient failure of the source (ErrorKind::Interrupted, retried by read_to_end) must not switch the check off
            if pw is None:
                for idx, m in enumerate(man["entries"]):
                    ds, de = m["data_start"], m["data_start"] + m["csize"]
                    variants = [(data, "intact")]
                    if de > ds:
                        for p_ in r.sample(range(ds, de), min(4, de - ds)):
                            d = bytearray(data); d[p_] ^= 1 << r.randrange(8)
                            variants.append((bytes(d), "bitflip@%d" % p_))
                    d = bytearray(data); d[m["central_start"] + 16] ^= 1
                    variants.append((bytes(d), "crc^1"))
                    for d, kind in variants:
                        for k in (0, 1, 2, 5):
                            meta = dict(seed=sname, idx=idx, kind=kind + "/hiccup%d" % k, ae2=False, content=m["content"], crc=m["crc"],
                                        damaged=(kind != "intact"), impl_only=True)
                            cases.append(("entry_hiccup %s %d %d %d" % (hexs(d), idx, k, r.choice([7, 16, 4096])), meta))
            # extraction is a read to end-of-file too: extract() (seekable, and streaming where the stream can walk the
            # archive) on damaged archives must fail, or every file it leaves must hash to the CRC its entry declares
            if pw is None:
                def addx(d, kind):
                    for mode in ((0, 1) if sname != "dd" else (0,)):
                        decl = {}
                        for m_ in man["entries"]:
                            o_ = m_["central_start"] + 16 if mode == 0 else m_["header_start"] + 14
                            decl[m_["name_raw"] if isinstance(m_["name_raw"], str) else m_["name_raw"].hex()] = int.from_bytes(d[o_:o_ + 4], "little")
                        cases.append(("extract %s %d" % (hexs(d), mode), dict(kind="extract-" + kind, seed=sname, decl=decl, damaged=(kind != "intact"), impl_only=True)))
                addx(data, "intact")
                for idx, m in enumerate(man["entries"]):
                    ds, de = m["data_start"], m["data_start"] + m["csize"]
                    spots = list(range(ds, de)) + list(range(m["central_start"] + 16, m["central_start"] + 20)) + list(range(m["header_start"] + 14, m["header_start"] + 18))
                    for p_ in (spots if len(spots) <= 16 or self.tier == "thorough" else r.sample(spots, 16)):
                        d = bytearray(data); d[p_] ^= 1 << r.randrange(8)
                        addx(bytes(d), "bitflip@%d" % p_)
                    for val in (1, 0xffffffff, m["crc"] ^ 1):
                        d = bytearray(data)
                        d[m["central_start"] + 16:m["central_start"] + 20] = val.to_bytes(4, "little")
                        d[m["header_start"] + 14:m["header_start"] + 18] = val.to_bytes(4, "little")
                        addx(bytes(d), "crc=%08x" % val)
                if len(man["entries"]) == 2:
                    m0, m1 = man["entries"]
                    d = bytearray(data)
                    n = min(m0["csize"], m1["csize"])
                    a, b = m0["data_start"], m1["data_start"]
                    d[a:a + n], d[b:b + n] = data[b:b + n], data[a:a + n]
                    addx(bytes(d), "swap")
            if pw is None and sname != "dd":
                for b in bufs:
                    cases.append(("stream_all %s %d" % (hexs(data), b), dict(kind="stream-intact", seed=sname, impl_only=True)))
                for idx, m in enumerate(man["entries"]):
                    ds, de = m["data_start"], m["data_start"] + m["csize"]
                    spots = list(range(ds, de)) + list(range(m["header_start"] + 14, m["header_start"] + 18))
                    if self.tier == "quick" and len(spots) > 30:
                        spots = r.sample(spots, 30)
                    for p in spots:
                        bit = r.randrange(8)
                        d = bytearray(data); d[p] ^= 1 << bit
                        cases.append(("stream_all %s %d" % (hexs(bytes(d)), r.choice(bufs)), dict(kind="stream-bitflip", seed=sname, impl_only=True)))
        return cases

    def oracle(self, line, meta, out):
        if out is None or "PANIC" in out or out.startswith("ABORT") or out == "TIMEOUT":
            if meta.get("seed") in ("ae1", "ae2") and "PArithSub" in (out or ""):
                return None       # D4 belongs to C05/C16
            return "implementation did not return: %s" % (out or "")[:120]
        if line.startswith("extract"):
            ok = out.startswith("[Ok ")
            if not meta["damaged"] and not ok:
                return "extract() of an intact archive failed: " + out[:100]
            if ok:
                for mm in re.finditer(r"\[x([0-9a-f]*) F \d+ x([0-9a-f]*)\]", out):
                    rel = bytes.fromhex(mm.group(1))
                    if rel.startswith(b"t/") and rel[2:].hex() in meta["decl"]:
                        got = binascii.crc32(bytes.fromhex(mm.group(2))) & 0xffffffff
                        if got != meta["decl"][rel[2:].hex()]:
                            return "extract() succeeded and left %r with CRC-32 %08x, its entry declares %08x" % (rel, got, meta["decl"][rel[2:].hex()])
            return None
        if line.startswith("stream_all"):
            for m in re.finditer(r"\[x[0-9a-f]* (\d+) \[Ok x([0-9a-f]*)\]\]", out):
                if binascii.crc32(bytes.fromhex(m.group(2))) & 0xffffffff != int(m.group(1)):
                    return "stream: completed read whose CRC-32 differs from the declared one"
            if meta["kind"] == "stream-intact" and "Err" in out:
                return "stream: intact archive failed: " + out[:100]
            return None
        kind, m, rd = parse_entry_out(out)
        if kind != "Ok":
            return "intact entry failed: " + out[:100] if not meta["damaged"] else None
        mm = re.match(r"\[Ok x([0-9a-f]*)\]", rd)
        if mm:
            got = bytes.fromhex(mm.group(1))
            declared = int(m[6])
            if meta["ae2"]:
                if meta["content"] is not None and got.hex() != meta["content"]:
                    return "AE-2 entry: completed read returned bytes other than the original"
            elif binascii.crc32(got) & 0xffffffff != declared:
                return "completed read whose CRC-32 (%08x) differs from the declared one (%08x)" % (binascii.crc32(got) & 0xffffffff, declared)
            if not meta["damaged"] and meta["content"] is not None and got.hex() != meta["content"]:
                return "intact entry returned wrong bytes"
        elif not meta["damaged"]:
            return "intact entry failed to read: " + rd[:100]
        return None

    def nontrivial(self, line, meta, out):
        return meta.get("damaged", True) and (out or "").startswith("[Ok")

CHECK = C04
