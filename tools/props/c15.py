"""C15 — ZipCrypto entries: right password decrypts, none/wrong is refused."""
import binascii, bz2, os, re, struct, subprocess, zlib
import genzip
from genzip import Entry
from zvlib import Check, run_lines, CACHE
from props.c04 import parse_entry_out

def hexs(b):
    return "x" + b.hex()

def find_local(data, name):
    """(flags, method, crc, csize, usize, payload) of the local entry with this name (archives without data descriptors)"""
    i = 0
    while True:
        i = data.find(b"PK\x03\x04", i)
        if i < 0:
            return None
        ver, flags, method, t, d, crc, cs, us, nl, el = struct.unpack("<HHHHHIIIHH", data[i + 4:i + 30])
        nm = data[i + 30:i + 30 + nl]
        if nm == name:
            st = i + 30 + nl + el
            return flags, method, crc, cs, us, data[st:st + cs], t
        i += 4

class C15(Check):
    pid = "C15"
    rule = ("passwords {empty, text, binary with NUL/0xFF, 1 KiB} x methods {stored, deflate, bzip2, zstd} x contents x entry "
            "position; entries written by the crate (judged by an independent Python PKWARE implementation, by unzip -t, "
            "and re-read by the crate) and foreign entries from the reference builder and Info-ZIP zip -e (incl. the "
            "data-descriptor variant validated against the DOS time); no password, wrong passwords, and all 256 "
            "check-byte values via chosen CRCs.  non-trivial = the entry is encrypted and the call decides something "
            "(content, rejection or error); distinct = distinct implementation output")
    trusted = ["tools/genzip.py PKWARE cipher (independent Python implementation)", "Info-ZIP zip 3.0 / unzip 6.00"]
    assumptions = ["a wrong password passing the 1-byte check is caught only by the CRC-32 (format-inherent)"]

    def gen(self):
        r = self.rng
        cases = []
        pws = [b"", b"pw", b"\x00\xff\x01 pass\x80", bytes(r.randrange(256) for _ in range(1024)), b"correct horse"]
        contents = [b"", b"x", b"hello zipcrypto " * 4, bytes(r.randrange(256) for _ in range(300)), b"A" * 1000]
        # ---- entries written by the crate
        wl, wm = [], []
        for pw in pws:
            for method, levels in ((0, [255]), (8, [255, 1, 9]), (12, [255, 1]), (93, [255, 19])):
                for c in (contents if self.tier == "thorough" else r.sample(contents, 3)):
                    lv = r.choice(levels)
                    nm = r.choice([b"secret.bin", "s\u00e9cret.bin".encode(), "\u65e5\u672c.txt".encode(), b"dir/sub\\x", b"a"])
                    wl.append("zcwrite %s %d %d %s %s" % (hexs(pw), method, lv, hexs(c), hexs(nm)))
                    wm.append((pw, method, c, nm))
        outs = run_lines(self.exes["debug"], wl)
        self.written = []
        for (pw, method, c, nm), o, l in zip(wm, outs, wl):
            m = re.match(r"\[Ok x([0-9a-f]*)\]", o or "")
            if not m:
                cases.append((l, dict(k="write", expect="fail", impl_only=True, note=o)))
                continue
            data = bytes.fromhex(m.group(1))
            cases.append((l, dict(k="write", pw=pw.hex(), method=method, content=c.hex(), name=nm.hex(), impl_only=True)))
            for idx, exp in ((1, c),):
                cases.append(("entry %s %d 1 %s %d" % (hexs(data), idx, hexs(pw), r.choice([1, 7, 4096])),
                              dict(k="read", expect="content", content=c.hex())))
            cases.append(("entry %s 1 0 x 64" % hexs(data), dict(k="read", expect="pwreq")))
            cases.append(("entry %s 1 1 %s 64" % (hexs(data), hexs(pw + b"!")), dict(k="read", expect="reject", content=c.hex())))
            cases.append(("entry %s 0 1 %s 64" % (hexs(data), hexs(pw)), dict(k="read", expect="content", content=b"plain first entry".hex())))
            # the right password over a source that delivers the archive in short pieces (the 12-byte encryption header
            # arrives in several reads): same bytes as over a cursor
            k_ = r.choice([1, 5, 7, 11])
            cases.append(("entry_sched %s 1 1 %s %s %s 1" % (hexs(data), hexs(pw), hexs(bytes([k_]) * min(65535, 4 * len(data) // k_ + 64)), hexs(bytes([r.choice([1, 7, 64])]))),
                          dict(k="sched", content=c.hex(), impl_only=True)))
        # ---- encrypted entries written over sinks that accept only part of each write (never fail): the buffered ciphertext
        #      must arrive completely; read back with the right password
        import wprog
        from wprog import Opts
        runs, exps = [], []
        for m in (0, 8):
            for c in (b"", b"short", bytes(r.randrange(256) for _ in range(700))):
                ops = [("file", b"plain", Opts()), ("write", b"p"), ("file", b"enc", Opts(method=m, pw=b"pw")), ("write", c),
                       ("file", b"after", Opts(method=8)), ("write", b"tail"), ("finish",)]
                for plan in (bytes([1]) * 4000, bytes([7]) * 2000, bytes(r.choice([1, 3, 11, 64]) for _ in range(1500))):
                    runs.append(dict(ops=ops, plan=plan)); exps.append(c)
        lines, outs2 = wprog.with_tables(self.exes["debug"], runs)
        for l, o, c in zip(lines, outs2, exps):
            cases.append((l, dict(k="write", pw=b"pw".hex(), method=0, content=c.hex(), name=b"enc".hex(), prog=True)))
            _, data = wprog.final_bytes(o)
            if data:
                cases.append(("entry %s 1 1 %s %d" % (hexs(data), hexs(b"pw"), r.choice([1, 7, 4096])), dict(k="read", expect="content", content=c.hex())))
                cases.append(("entry %s 2 0 x 64" % hexs(data), dict(k="read", expect="content", content=b"tail".hex())))
            else:
                cases.append((l, dict(k="write", expect="fail", impl_only=True, note=(o or "")[:80])))
        # ---- foreign entries
        for pw in pws:
            for method in (0, 8, 12):
                for dd in (None, "sig32"):
                    c = r.choice(contents)
                    ents = [Entry(b"p0", b"plain"), Entry(b"enc", c, method=method, password=pw, dd=dd,
                                                        date_time=genzip.dos(2001 + r.randrange(20), 1 + r.randrange(12), 1 + r.randrange(28), r.randrange(24), r.randrange(60), 0)),
                            Entry(b"p2", b"tail", method=8)]
                    order = r.sample(range(3), 3)
                    data, man = genzip.build(ents, order=None)
                    cases.append(("entry %s 1 1 %s %d" % (hexs(data), hexs(pw), r.choice([1, 3, 4096])), dict(k="read", expect="content", content=c.hex())))
                    cases.append(("entry %s 1 0 x 8" % hexs(data), dict(k="read", expect="pwreq")))
                    cases.append(("entry %s 1 1 %s 8" % (hexs(data), hexs(pw + b"x")), dict(k="read", expect="reject", content=c.hex())))
        # ---- all 256 check-byte values with a wrong password (chosen CRCs)
        want = {}
        i = 0
        while len(want) < 256:
            c = b"c%d" % i
            want.setdefault((binascii.crc32(c) >> 24) & 0xff, c)
            i += 1
        for hb, c in sorted(want.items()):
            data, man = genzip.build([Entry(b"e", c, password=b"right")])
            cases.append(("entry %s 0 1 %s 16" % (hexs(data), hexs(b"wrong")), dict(k="read", expect="reject", content=c.hex())))
            cases.append(("entry %s 0 1 %s 16" % (hexs(data), hexs(b"right")), dict(k="read", expect="content", content=c.hex())))
        # ---- wrong passwords that PASS the one-byte header check (found by search with the independent PKWARE cipher): the
        #      read must then fail on the CRC (or in the decoder), never complete with other bytes
        for c, m in ((b"known plaintext " * 8, 0), (b"compressible " * 60, 8), (b"q", 0)):
            data, man = genzip.build([Entry(b"e", c, method=m, password=b"right")])
            e0 = man["entries"][0]
            hdr = data[e0["data_start"]:e0["data_start"] + 12]
            hb = (e0["crc"] >> 24) & 0xff
            found = 0
            for i in range(20000):
                pwi = b"wrong-%d" % i
                if genzip.ZipCrypto(pwi).decrypt(hdr)[11] == hb:
                    cases.append(("entry %s 0 1 %s %d" % (hexs(data), hexs(pwi), r.choice([1, 16, 4096])),
                                  dict(k="read", expect="reject", content=c.hex(), passes_header=True)))
                    found += 1
                    if found == 4:
                        break
        # ---- Info-ZIP producer
        d = os.path.join(CACHE, "c15_infozip")
        os.makedirs(d, exist_ok=True)
        for k, (pw, extra) in enumerate([(b"pw", []), (b"secret pass", ["-fd"]), (b"pw", ["-0"]), (b"x", ["-9", "-fd"])]):
            fn = os.path.join(d, "f%d.txt" % k)
            c = (b"info-zip content %d\n" % k) * (k + 2)
            open(fn, "wb").write(c)
            z = os.path.join(d, "a%d.zip" % k)
            if os.path.exists(z):
                os.remove(z)
            p = subprocess.run(["zip", "-q", "-j", "-X", "-P", pw.decode()] + extra + [z, fn], capture_output=True)
            if p.returncode == 0:
                data = open(z, "rb").read()
                cases.append(("entry %s 0 1 %s 7" % (hexs(data), hexs(pw)), dict(k="read", expect="content", content=c.hex(), producer="infozip" + " ".join(extra))))
                cases.append(("entry %s 0 0 x 7" % hexs(data), dict(k="read", expect="pwreq")))
                cases.append(("entry %s 0 1 %s 7" % (hexs(data), hexs(b"nope")), dict(k="read", expect="reject", content=c.hex())))
        return cases

    def oracle(self, line, meta, out):
        if out is None or "PANIC" in out or out.startswith("ABORT") or out == "TIMEOUT":
            return "implementation did not return: %s" % (out or "")[:120]
        if meta["k"] == "write":
            if meta.get("expect") == "fail":
                return "writer refused a valid encrypted entry: %s" % meta.get("note")
            if meta.get("prog"):
                import wprog
                calls, data = wprog.final_bytes(out)
                if not data or any(not (isinstance(c_, list) and c_[0] == "Ok") for c_ in (calls or [])):
                    return "a legal program with an encrypted entry failed over a short-writing sink: " + out[:120]
            else:
                data = bytes.fromhex(re.match(r"\[Ok x([0-9a-f]*)\]", out).group(1))
            pw, c = bytes.fromhex(meta["pw"]), bytes.fromhex(meta["content"])
            loc = find_local(data, bytes.fromhex(meta["name"]))
            if loc is None:
                return "entry not found in the written archive"
            flags, method, crc, cs, us, payload, t = loc
            if not flags & 1:
                return "encryption flag not set on an entry written with a password"
            plain = genzip.ZipCrypto(pw).decrypt(payload)
            if len(plain) < 12 or plain[11] != (crc >> 24) & 0xff:
                return "independent PKWARE decryption: check byte does not match the CRC high byte"
            body = plain[12:]
            try:
                dec = body if method == 0 else zlib.decompress(body, -15) if method == 8 else bz2.decompress(body) if method == 12 else None
            except Exception as e:
                return "independent PKWARE decryption did not yield a valid %d stream: %s" % (method, e)
            if dec is not None and dec != c:
                return "independent PKWARE decryption yields other bytes than were written"
            if crc != binascii.crc32(c) & 0xffffffff:
                return "stored CRC is not the CRC of the plaintext"
            if len(c) >= 16 and len(set(c)) > 1 and c in data:
                return "plaintext appears in the encrypted archive"
            if method in (0, 8) and pw and all(32 <= b < 127 for b in pw):
                z = os.path.join(CACHE, "c15_w_%d.zip" % os.getpid())
                open(z, "wb").write(data)
                p = subprocess.run(["unzip", "-t", "-qq", "-P", pw.decode("latin-1"), z], capture_output=True)
                os.remove(z)
                if p.returncode != 0:
                    return "unzip -t rejects the archive written by the crate: %s" % p.stdout[-200:]
            return None
        if meta["k"] == "sched":
            if not out.startswith("[SAME "):
                return "right password over a short-reading source differs from the read over a cursor: " + out[:200]
            mm = re.search(r"\[Ok x([0-9a-f]*)(?: \[[0-9 ]*\])?\]*$", out)
            if not mm or mm.group(1) != meta["content"]:
                return "right password over a short-reading source did not return the original bytes: " + out[-120:]
            return None
        kind, m, rd = parse_entry_out(out)
        exp = meta["expect"]
        if exp == "pwreq":
            return None if out == "[Err [Unsupported MPasswordRequired]]" else "no password: expected the password-required error, got " + out[:80]
        if exp == "content":
            mm = re.match(r"\[Ok x([0-9a-f]*)\]", rd or "")
            if not mm or mm.group(1) != meta["content"]:
                return "right password did not return the original bytes: " + (rd or out)[:120]
            return None
        if exp == "reject":
            if out == "InvalidPassword":
                return None
            mm = re.match(r"\[Ok x([0-9a-f]*)\]", rd or "")
            if mm and mm.group(1) != meta["content"]:
                return "wrong password completed a read of other bytes"
            if mm and mm.group(1) == meta["content"] and meta["content"] != "":
                return "wrong password returned the plaintext"
            return None
        return None

    def nontrivial(self, line, meta, out):
        return True

CHECK = C15
