"""C02 — every archive the writer emits is a valid, self-consistent ZIP file."""
import io, os, re, subprocess, zipfile
import genzip, strictzip, wprog
from genzip import Entry
from wprog import Opts
from zvlib import Check, CACHE
from props.c01 import C01, spec_entries

def hexs(b):
    return "x" + b.hex()

class C02(C01):
    pid = "C02"
    rule = ("the writer programs of C01 extended with extra-data, aligned, ZipCrypto-encrypted, raw-copied and appended "
            "entries, and with out-of-range lengths (name / comment / extra data of 65535, 65536, 65537, 70000 bytes; extra "
            "data overflowing only together with the ZIP64 reservation).  Every archive a successful finish() returns is "
            "judged by an independent strict validator written from APPNOTE (tools/strictzip.py), by CPython zipfile "
            "(testzip + listing) and by Info-ZIP unzip -t; unrepresentable inputs must end in an error.  The bytes are also "
            "compared with the model.  non-trivial = >= 1 entry or an out-of-range length; distinct = distinct archive bytes")
    trusted = ["tools/strictzip.py, CPython zipfile, Info-ZIP unzip as independent judges"]
    assumptions = ["a local ZIP64 reservation on a small large_file entry with version-needed 20 is tolerated by the validator (every judge accepts it)"]

    def gen(self):
        r = self.rng
        progs, metas = [], []
        src, _ = genzip.build([Entry(b"src0", b"raw source " * 5, method=8), Entry(b"src1", b"stored source"), Entry(b"odd", b"zz", payload=b"zz")])
        base0, _ = genzip.build([Entry(b"old1", b"old content"), Entry("ö".encode(), b"x", utf8=True, method=8)], prefix=b"PREFIX", comment=b"old comment")
        n = 200 if self.tier == "quick" else 3000
        for a in range(n):
            ops = []
            pws = {}
            for i in range(r.choice([1, 2, 3, 5, 8])):
                kind = r.random()
                nm = self.rand_name(i)
                if len(nm) > 300:
                    nm = nm[:300]
                if kind < 0.35:
                    o = self.rand_opts()
                    if r.random() < 0.3:
                        o.pw = r.choice([b"pw", b"", b"p\xffw"])
                        o.level = None
                    ops += [("file", nm, o), ("write", self.rand_content(False))]
                elif kind < 0.5:
                    ops += [("aligned", nm, self.rand_opts(), r.choice([0, 4, 64, 4096, 33])), ("write", self.rand_content(False))]
                elif kind < 0.65:
                    x = bytes.fromhex("efbe0300616263")
                    ops += [("extra", nm, self.rand_opts()), ("write", x), r.choice([("endextra",), ("endlocal",)])]
                    if ops[-1][0] == "endlocal":
                        ops += [("write", bytes.fromhex("adde0100ff")), ("endextra",)]
                    ops += [("write", self.rand_content(False))]
                elif kind < 0.8:
                    ops += [("rawcopy", src, r.choice([0, 1, 2]), r.choice([None, b"renamed%d" % i]))]
                elif kind < 0.9:
                    ops += [("dir", nm or b"d", self.rand_opts())]
                else:
                    ops += [("symlink", nm or b"l", b"target", self.rand_opts())]
            if r.random() < 0.4:
                ops.append(("comment", r.choice([b"", b"cm", b"C" * 65535])))
            ops.append(("finish",))
            progs.append(dict(ops=ops, base=(base0 if a % 5 == 0 else None)))
            metas.append(dict(k="valid"))
        # more entries than the 16-bit counts of the end record can hold: the counts must be the 0xFFFF marker (or the true
        # value), with ZIP64 end record and locator (implementation only: the list-based model is quadratic here)
        for cnt in ((65541,) if self.tier == "quick" else (65535, 65536, 65541, 70000)):
            progs.append(dict(ops=[("file", b"e%d" % i, Opts()) for i in range(cnt)] + [("comment", b"many"), ("finish",)]))
            metas.append(dict(k="valid", impl_only=True))
        # lengths the format cannot represent
        for L in (65535, 65536, 65537, 70000):
            progs.append(dict(ops=[("file", b"n" * L, Opts()), ("write", b"x"), ("finish",)])); metas.append(dict(k="len", what="name", L=L))
            progs.append(dict(ops=[("file", b"ok", Opts()), ("comment", b"c" * L), ("finish",)])); metas.append(dict(k="len", what="comment", L=L))
            progs.append(dict(ops=[("dir", b"d" * L, Opts()), ("finish",)])); metas.append(dict(k="len", what="name", L=L + 1))
        # the limit is on BYTES: non-ASCII names with few characters but too many bytes, through every creating call
        for nm in ("\u00e9" * 32768, "a" + "\u00e9" * 32768, "\u20ac" * 21846, "\u00e9" * 40000, "\u00e9" * 32767 + "a", "\u20ac" * 21845):
            nb = nm.encode("utf-8")
            progs.append(dict(ops=[("file", nb, Opts()), ("write", b"x"), ("finish",)])); metas.append(dict(k="len", what="name", L=len(nb)))
            progs.append(dict(ops=[("dir", nb, Opts()), ("finish",)])); metas.append(dict(k="len", what="name", L=len(nb) + 1))
            progs.append(dict(ops=[("symlink", nb, b"t", Opts()), ("finish",)])); metas.append(dict(k="len", what="name", L=len(nb)))
            progs.append(dict(ops=[("extra", nb, Opts()), ("endextra",), ("write", b"x"), ("finish",)])); metas.append(dict(k="len", what="name", L=len(nb)))
            progs.append(dict(ops=[("aligned", nb, Opts(), 64), ("write", b"x"), ("finish",)])); metas.append(dict(k="len", what="name", L=len(nb)))
        # raw copies of entries whose declared sizes lie on different sides of the 32-bit limit (the source declares an
        # uncompressed size beyond 4 GiB over a tiny payload: a raw copy never decodes it): the copy's local header must
        # carry the ZIP64 block and agree with its central record
        for us, nm in (((1 << 32) + 16, None), ((1 << 32) - 1, None), (1 << 32, b"renamed"), ((1 << 40) + 5, b"r2")):
            src = genzip.build([genzip.Entry(b"before", b"b"), genzip.Entry(b"big", b"tiny tiny tiny", method=8, usize=us)])[0]
            progs.append(dict(ops=[("file", b"first", Opts()), ("write", b"1"), ("rawcopy", src, 1, nm), ("rawcopy", src, 0, None), ("file", b"last", Opts(method=8)), ("write", b"z" * 50), ("finish",)]))
            metas.append(dict(k="rawlie"))
        import struct
        for L in (65531, 65511, 65512, 65515, 65516, 65520):
            for large in (False, True):
                x = struct.pack("<HH", 0xbeef, L - 4) + bytes(L - 4)
                progs.append(dict(ops=[("extra", b"x", Opts(large=large)), ("write", x), ("endextra",), ("write", b"data"), ("finish",)]))
                metas.append(dict(k="len", what="extra", L=L + (20 if large else 0)))
        lines, outs = wprog.with_tables(self.exes["debug"], progs)
        return list(zip(lines, metas))

    def oracle(self, line, meta, out):
        if out is None or "PANIC" in out or out.startswith("ABORT") or out == "TIMEOUT":
            return "a writer call panicked or the process died: %s" % (out or "")[:160]
        calls, data = wprog.final_bytes(out)
        if calls is None:
            return "unexpected output " + out[:80]
        fin = calls[-1]
        fin_ok = isinstance(fin, list) and fin[0] == "Ok"
        if meta["k"] == "len":
            if meta["L"] > 65535:
                if fin_ok and not any(isinstance(c, list) and c[0] == "Err" for c in calls):
                    return "a %s of %d bytes does not fit its 16-bit length field but the writer reported success" % (meta["what"], meta["L"])
                if fin_ok:
                    pass        # the offending entry was refused, the rest must still be valid
                else:
                    return None
            elif not fin_ok:
                return "a representable %s length (%d) was rejected: %s" % (meta["what"], meta["L"], fin)
        if meta["k"] == "rawlie":
            if not fin_ok:
                return "raw copy of an entry with a declared size beyond 4 GiB failed: %s" % (fin,)
            listing, problems = strictzip.validate(data, None, None)
            problems = [q for q in problems if "decoded length" not in q and "decoded data has CRC" not in q and "does not decode" not in q]
            if problems:
                return "finish() succeeded but the strict validator rejects the structure of the archive: " + "; ".join(problems[:3])
            return None
        if not fin_ok:
            return None
        listing, problems = strictzip.validate(data, None, None)
        if problems:
            return "finish() succeeded but the strict validator rejects the archive: " + "; ".join(problems[:3])
        # CPython zipfile as second judge (it cannot list names with NUL faithfully; skip those)
        try:
            zf = zipfile.ZipFile(io.BytesIO(data))
            infos = zf.infolist()
            if len(infos) != len(listing["entries"]):
                return "CPython zipfile lists %d entries, the directory has %d" % (len(infos), len(listing["entries"]))
            for zi, e in zip(infos, listing["entries"]):
                if zi.CRC != e["crc"] or zi.file_size != e["usize"] or zi.compress_size != e["csize"] or zi.header_offset != e["header_start"]:
                    return "CPython zipfile disagrees on CRC/sizes/offset of entry %r" % e["name"]
            if not any(e["flags"] & 1 or e["method"] not in (0, 8, 12) for e in listing["entries"]):
                bad = zf.testzip()
                if bad is not None:
                    return "CPython zipfile.testzip() reports a bad entry: %r" % bad
        except Exception as ex:
            return "CPython zipfile rejects the archive: %s" % ex
        if all(e["method"] in (0, 8, 12) and not (e["flags"] & 1) for e in listing["entries"]) and listing["entries"] and len(data) < 2000000:
            z = os.path.join(CACHE, "c02_%d.zip" % os.getpid())
            open(z, "wb").write(data)
            p = subprocess.run(["unzip", "-tqq", z], capture_output=True)
            os.remove(z)
            if p.returncode not in (0, 1):          # 1 = warnings (e.g. unusual names)
                return "unzip -t rejects the archive (rc %d): %s" % (p.returncode, (p.stdout + p.stderr)[-160:])
        return None

    def nontrivial(self, line, meta, out):
        return True

CHECK = C02
