"""C11 — I/O failures surface as errors, never as panics or wrong results."""
import io, struct, zipfile
import genzip, wprog
from genzip import Entry
from wprog import Opts
from zvlib import Check, run_lines, _parse_obs
from props.c01 import C01

def hexs(b):
    return "x" + b.hex()

class C11(C01):
    pid = "C11"
    rule = ("writer scenarios (programs mixing stored/deflate/bzip2/zstd files, extra data local+central, aligned entries, "
            "ZipCrypto, directories, symlinks, raw copies, comment changes, on fresh sinks and on archives opened for append; "
            "terminated by finish() or by drop; followed by further calls): for EVERY index k below the number of I/O calls of "
            "the failure-free run, the k-th sink call (write, flush or seek) fails hard; the crate's per-call results and final "
            "sink bytes are compared with the writer model run under the same failure plan.  Reader scenarios (archives from "
            "the independent builder and the crate: all methods, ZIP64 forced, ZipCrypto, AE-1/AE-2, data descriptors, prefix, "
            "comment): for EVERY index k the k-th source call (read or seek) fails; open + by_index(_decrypt) + read_to_end of "
            "every entry.  Oracle for both: no panic (also in later calls and in drop); either some call reported an error or "
            "the outcome equals the failure-free outcome.  non-trivial = a fault that actually hit; distinct = distinct output")
    trusted = ["tools/genzip.py", "harness fault-injecting sink and source"]
    assumptions = ["reader-side faults are decided by the oracle on the implementation only (the reader model has no failing source)",
                   "a writer that is only dropped cannot report the failure (documented): judged for absence of panics only"]

    def writer_scenarios(self):
        r = self.rng
        src, _ = genzip.build([Entry(b"src0", b"raw source " * 5, method=8), Entry(b"src1", b"stored")])
        base, _ = genzip.build([Entry(b"old1", b"old content"), Entry(b"old2", b"x" * 50, method=8)], comment=b"old")
        txt = b"fault injection content. " * 4
        fixed = [
            [("file", b"a", Opts()), ("write", txt), ("file", b"b", Opts(method=8)), ("write", txt), ("finish",)],
            [("file", b"z", Opts(method=93)), ("write", txt), ("file", b"bz", Opts(method=12)), ("write", txt), ("comment", b"c"), ("finish",)],
            [("extra", b"x", Opts()), ("write", bytes.fromhex("efbe0300616263")), ("endlocal",), ("write", bytes.fromhex("adde0100ff")), ("endextra",), ("write", txt), ("finish",)],
            [("aligned", b"al", Opts(), 64), ("write", txt), ("aligned", b"al2", Opts(large=True), 4096), ("write", b"q"), ("finish",)],
            [("file", b"enc", Opts(pw=b"pw")), ("write", txt), ("file", b"enc8", Opts(method=8, pw=b"pw")), ("write", txt), ("finish",)],
            [("dir", b"d", Opts()), ("symlink", b"l", b"target", Opts()), ("rawcopy", src, 0, None), ("rawcopy", src, 1, b"rn"), ("finish",)],
            [("file", b"a", Opts(large=True)), ("write", txt), ("finish",), ("file", b"late", Opts()), ("write", b"x"), ("finish",)],
            [("file", b"a", Opts(method=8)), ("write", txt), ("write", txt)],                          # dropped, not finished
            [("file", b"only", Opts())],
            [],
        ]
        out = [dict(ops=o) for o in fixed]
        out.append(dict(ops=[("file", b"new", Opts(method=8)), ("write", txt), ("finish",)], base=base))
        out.append(dict(ops=[("rawcopy", src, 0, None), ("comment", b"replaced"), ("finish",)], base=base))
        out.append(dict(ops=[("finish",)], base=base))
        for a in range(6 if self.tier == "quick" else 150):
            ops = []
            for i in range(r.choice([1, 2, 3, 4])):
                x = r.random()
                nm = b"n%d" % i
                if x < 0.5:
                    o = self.rand_opts()
                    if r.random() < 0.2:
                        o.pw = b"pw"; o.level = None
                    ops += [("file", nm, o), ("write", self.rand_content(False)[:3000])]
                elif x < 0.6:
                    ops += [("aligned", nm, self.rand_opts(), r.choice([4, 512]))]
                elif x < 0.7:
                    ops += [("extra", nm, self.rand_opts()), ("write", bytes.fromhex("efbe0300616263")), r.choice([("endextra",), ("endlocal",)])]
                    if ops[-1][0] == "endlocal":
                        ops += [("endextra",)]
                    ops += [("write", b"data")]
                elif x < 0.8:
                    ops += [("rawcopy", src, r.choice([0, 1]), None)]
                elif x < 0.9:
                    ops += [("dir", nm, self.rand_opts())]
                else:
                    ops += [("symlink", nm, b"t", self.rand_opts())]
            if r.random() < 0.8:
                ops.append(("finish",))
            if r.random() < 0.3:
                ops += [("file", b"after", Opts()), ("write", b"x"), ("finish",)]
            out.append(dict(ops=ops, base=base if a % 4 == 3 else None))
        return out

    def reader_scenarios(self):
        exe = self.exes["debug"]
        zs = run_lines(exe, ["zstd_compress %s 3" % hexs(b"zstd payload " * 5)], shards=1)[0]
        zst = bytes.fromhex(zs[1:])
        txt = b"The quick brown fox jumps over the lazy dog. " * 3
        S = []
        S.append((genzip.build([Entry(b"s", txt), Entry(b"d", txt, method=8), Entry(b"b", txt, method=12), Entry(b"z", b"zstd payload " * 5, method=93, payload=zst),
                                Entry(b"dd", txt, method=8, dd="sig"), Entry(b"e", b"")], comment=b"cm")[0], None))
        S.append((genzip.build([Entry(b"a", txt, z64=("usize", "csize", "offset")), Entry(b"b", txt, method=8)], force_z64=True, prefix=b"junk" * 10)[0], None))
        S.append((genzip.build([Entry(b"zc", txt, password=b"pw"), Entry(b"zc8", txt, method=8, password=b"pw")])[0], b"pw"))
        S.append((genzip.build([Entry(b"ae1", txt, password=b"pw", aes=(1, 1, bytes(8))), Entry(b"ae2", txt, method=8, password=b"pw", aes=(2, 3, bytes(range(16))))])[0], b"pw"))
        S.append((genzip.build([])[0], None))
        # an older, self-consistent end record close to the real one: a stored nested archive as last entry, and two
        # concatenated archives (a swallowed read failure during the end-record search would silently yield the other one)
        inner = genzip.build([Entry(b"inner1", b"nested"), Entry(b"inner2", b"nested too")])[0]
        S.append((genzip.build([Entry(b"outer", txt), Entry(b"nested.zip", inner)])[0], None))
        S.append((inner + genzip.build([Entry(b"second-archive", txt)], comment=b"2nd")[0], None))
        S.append((genzip.build([Entry(b"x", txt)], comment=b"PK\x05\x06" + bytes(18) + b" comment with a fake end record")[0], None))
        return S

    def gen(self):
        exe = self.exes["debug"]
        cases = []
        # ---- writer
        scen = self.writer_scenarios()
        lines0, outs0 = wprog.with_tables(exe, scen)
        counts = run_lines(exe, [l.replace("wprog", "wprog_calls", 1) for l in lines0])
        for si, (sc, l0, o0, c) in enumerate(zip(scen, lines0, outs0, counts)):
            n = int(_parse_obs(c)[0][0])
            finished = any(o[0] == "finish" for o in sc["ops"])
            for k in range(n):
                plan = bytes([255] * k + [0])
                # the oracle table is the one of the failure-free run (a failed run compresses prefixes of the same contents)
                line = l0.replace("wprog ", "wprog 15 %s " % hexs(plan), 1)
                cases.append((line, dict(k="w", scen=si, fault=k, n=n, ref=o0, finished=finished)))
            cases.append((l0, dict(k="w-ref", scen=si, n=n, ref=o0, finished=finished)))
        # ---- reader
        for si, (data, pw) in enumerate(self.reader_scenarios()):
            ref = run_lines(exe, ["faultread %s %d %d %s" % (hexs(data), 1 << 60, 1 if pw else 0, hexs(pw or b""))], shards=1)[0]
            n = int(_parse_obs(ref)[0][0])
            for k in range(n):
                cases.append(("faultread %s %d %d %s" % (hexs(data), k, 1 if pw else 0, hexs(pw or b"")),
                              dict(k="r", scen=si, fault=k, n=n, ref=ref, impl_only=True)))
        # ---- the streaming API over a failing source: visit() (files, then the metadata pass over the central directory)
        # and read_zipfile_from_stream to the end
        txt_ = b"The quick brown fox jumps over the lazy dog. " * 3
        streamable = genzip.build([Entry(b"s", txt_), Entry(b"d", txt_, method=8), Entry(b"e", b""), Entry(b"dir/", b""), Entry(b"t", b"tail", comment=b"fc")], comment=b"cm")[0]
        for si, (data, pw) in enumerate(self.reader_scenarios() + [(streamable, None)]):
            if pw:
                continue
            for mode in (0, 1, 2):
                ref = run_lines(exe, ["faultstream %s %d %d" % (hexs(data), 1 << 60, mode)], shards=1)[0]
                if "Err" in ref:
                    continue            # not streamable (data descriptors): nothing to compare with
                n = int(_parse_obs(ref)[0][0])
                for k in range(n):
                    cases.append(("faultstream %s %d %d" % (hexs(data), k, mode), dict(k="r", scen=si, fault=k, n=n, ref=ref, impl_only=True)))
        # ---- open for append over a failing device
        for si, (data, pw) in enumerate(self.reader_scenarios()):
            if pw:
                continue
            ref = run_lines(exe, ["faultappend %s %d" % (hexs(data), 1 << 60)], shards=1)[0]
            n = int(_parse_obs(ref)[0][0])
            for k in range(n):
                cases.append(("faultappend %s %d" % (hexs(data), k), dict(k="a", scen=si, fault=k, n=n, ref=ref, impl_only=True)))
        return cases

    def oracle(self, line, meta, out):
        if out is None or "PANIC" in out or out.startswith("ABORT") or out == "TIMEOUT":
            return "a call panicked or the process died under an injected I/O failure (fault %s): %s" % (meta.get("fault"), (out or "")[:200])
        if meta["k"] in ("r", "a"):
            p, q = _parse_obs(out)[0], _parse_obs(meta["ref"])[0]
            if "Err" in out or "ReadErr" in out:
                return None
            if p[1:] != q[1:]:
                return "source failure at call %d reported by no call, yet the outcome differs from the failure-free run" % meta["fault"]
            return None
        if meta["k"] == "w-ref":
            return None
        calls, data = wprog.final_bytes(out)
        rcalls, rdata = wprog.final_bytes(meta["ref"])
        if calls is None:
            return "unexpected output " + out[:100]
        any_err = any(isinstance(c, list) and c and c[0] in ("Err", "SrcErr") for c in calls)
        if any_err:
            return None
        if not meta["finished"]:
            return None        # only dropped: the failure cannot be reported (documented)
        if data != rdata:
            return "sink failure at call %d reported by no call, yet finish() returned different bytes" % meta["fault"]
        return None

    def finding_key(self, line, meta, why):
        # D24: only the free function read_zipfile_from_stream with entries dropped unread (mode 2 of faultstream: every
        # content read then happens inside ZipFile's Drop, which cannot report a failure), and only a swallowed failure
        if line.startswith("faultstream ") and line.split()[-1] == "2" and "reported by no call" in why:
            return "stream-entry-dropped-unread-skip-failure"
        return None

    def nontrivial(self, line, meta, out):
        return meta["k"] in ("w", "r", "a")

CHECK = C11
