"""C12 — any order of writer calls is safe; misuse is reported, not absorbed."""
import itertools, re
import genzip, strictzip, wprog
from genzip import Entry
from wprog import Opts
from zvlib import Check, _parse_obs

def hexs(b):
    return "x" + b.hex()

GOOD_EXTRA = bytes.fromhex("efbe0300616263")          # id 0xbeef, 3 bytes
BAD_EXTRAS = [bytes.fromhex("0100080000000000000000"),  # ZIP64 id
              bytes.fromhex("0a000000"),                 # reserved id
              bytes.fromhex("efbe0900ab"),               # size exceeds
              bytes.fromhex("efbe00")]                   # incomplete header

class C12(Check):
    pid = "C12"
    rule = ("all call sequences up to depth 3 (thorough: 4) over the writer alphabet {start_file, start_file_aligned, "
            "start_file_with_extra_data, write, end_local_start_central_extra_data, end_extra_data, add_directory, "
            "add_symlink, set_comment, raw_copy_file(_rename), finish} with small parameter domains (2 names, 3 contents, "
            "methods incl. unsupported, levels incl. illegal, extra blobs incl. reserved/ZIP64/truncated, align in "
            "{0,4,64}), followed by drop; plus random sequences up to depth 200.  Compared: Ok/Err(kind)/Panic of every "
            "call and the final bytes with the model.  Oracle: no panic; documented misuse is an error; when finish "
            "succeeds the archive is strictly valid and holds exactly the entries whose creation succeeded with the bytes "
            "successfully written.  non-trivial = a sequence with at least one error or >= 2 entries; distinct = distinct "
            "outcome vector")
    trusted = ["tools/strictzip.py as independent validator"]
    assumptions = []

    def alphabet(self, src):
        A = []
        for n in (b"a", b"b/c"):
            A.append(("file", n, Opts(method=0)))
            A.append(("file", n, Opts(method=8)))
        A.append(("file", b"a", Opts(method=8, level=100)))
        A.append(("file", b"a", Opts(method=0, level=3)))
        A.append(("file", b"a", Opts(method=99)))
        A.append(("file", b"a", Opts(method=1)))
        A.append(("file", b"a", Opts(method=12, level=0)))
        A.append(("extra", b"e", Opts(method=0)))
        A.append(("extra", b"e", Opts(method=8, level=100)))
        A.append(("extra", b"e", Opts(method=93, large=True)))
        A.append(("extra", b"el", Opts(method=0, large=True)))
        for al in (0, 4, 64):
            A.append(("aligned", b"al", Opts(method=0), al))
        # the ZipCrypto option on every kind of entry (D21: extra data / alignment used to panic with it)
        A.append(("file", b"enc", Opts(method=0, pw=b"pw")))
        A.append(("extra", b"ence", Opts(method=8, pw=b"pw")))
        A.append(("aligned", b"enca", Opts(method=0, pw=b"pw"), 64))
        A.append(("dir", b"encd", Opts(pw=b"pw")))
        # a name that does not fit its 16-bit length field: refused, and the refusal must leave the pending entry alone
        A.append(("file", b"N" * 65536, Opts(method=0)))
        for c in (b"", b"xyz", GOOD_EXTRA, BAD_EXTRAS[0], BAD_EXTRAS[3]):
            A.append(("write", c))
        A += [("endlocal",), ("endextra",), ("dir", b"d", Opts()), ("symlink", b"l", b"t", Opts()), ("comment", b"cm"),
              ("rawcopy", src, 0, None), ("rawcopy", src, 1, b"renamed"), ("finish",)]
        return A

    def gen(self):
        r = self.rng
        src, _ = genzip.build([Entry(b"s0", b"source zero " * 3, method=8), Entry(b"s1", b"one")])
        A_full = self.alphabet(src)
        # the 65,536-byte name costs 128 KiB per occurrence in the request text: it takes part in the exhaustive sequences
        # up to depth 2, in the depth-3 sample of the quick tier and in the random programs, not in the exhaustive depths 3-4
        A_small = [a_ for a_ in A_full if not (a_[0] == "file" and len(a_[1]) > 65535)]
        progs = []
        depth = 3 if self.tier == "quick" else 4
        for d in range(1, depth + 1):
            if d < depth or self.tier == "thorough":
                A = A_full if d <= 2 else A_small
                for seq in itertools.product(range(len(A)), repeat=d):
                    progs.append([A[i] for i in seq])
            else:
                A = A_full
                allseq = list(itertools.product(range(len(A)), repeat=d))
                for seq in r.sample(allseq, 9000):
                    progs.append([A[i] for i in seq])
        A = A_full
        more = BAD_EXTRAS[1:3]
        for _ in range(3000 if self.tier == "quick" else 60000):
            n = r.choice([4, 5, 6, 8, 12, 30]) if r.random() < 0.98 else 200
            AA = A_full if (self.tier == "quick" or r.random() < 0.03) else A_small
            ops = [r.choice(AA) for _ in range(n)]
            if r.random() < 0.2:
                ops.insert(r.randrange(len(ops)), ("write", r.choice(more)))
            progs.append(ops)
        # every way to start an entry, carried through a complete legal (or would-be legal) life: extra data, central-only
        # part, content, a following entry, finish -- the deep sequences the exhaustive depth does not reach
        for st in [a_ for a_ in A if a_[0] in ("file", "extra", "aligned")]:
            progs.append([st, ("write", GOOD_EXTRA), ("endextra",), ("write", b"xyz"), ("finish",)])
            progs.append([st, ("write", GOOD_EXTRA), ("endlocal",), ("write", GOOD_EXTRA), ("endextra",), ("write", b"xyz"), ("file", b"next", Opts()), ("write", b"xyz"), ("finish",)])
            progs.append([("rawcopy", src, 0, None), st, ("write", b"xyz"), ("rawcopy", src, 1, b"renamed"), ("finish",)])
            progs.append([st, ("endextra",), ("write", b"xyz"), ("dir", b"d", Opts()), ("finish",)])
        # malformed extra data at every distance from the end of the supplied bytes (declared size overrunning by 1..5,
        # header cut after 1..3 bytes, after a good record too), ended explicitly, through the central-only switch, and
        # implicitly by every kind of next call
        near = [bytes.fromhex(h) for h in ("efbe0200ab", "efbe0300abcd", "efbe0500ab", "efbe0600ab", "efbe0100", "ef", "efbe", "efbe01")]
        near += [GOOD_EXTRA + b_ for b_ in near[:5]]
        enders = [[("endextra",)], [("endlocal",)], [("finish",)], [("file", b"next", Opts())], [("dir", b"nd", Opts())],
                  [("symlink", b"nl", b"t", Opts())], [("rawcopy", src, 1, None)], []]
        for bad in near:
            for en in enders:
                progs.append([("extra", b"e", Opts()), ("write", bad)] + en + ([("finish",)] if en != [("finish",)] else []))
                progs.append([("extra", b"e", Opts()), ("endlocal",), ("write", bad)] + en)
        # a finish() refused for an archive comment that does not fit 16 bits must leave the writer as it was: the pending
        # entry (an open file, a raw copy) is continued / kept, a corrected comment and a second finish() give the archive
        LONGC = b"C" * 65536
        for head in ([("rawcopy", src, 0, None)], [("file", b"a", Opts(method=8)), ("write", b"xyz")], [("file", b"a", Opts()), ("write", b"xyz")],
                     [("extra", b"e", Opts()), ("write", GOOD_EXTRA)], [("dir", b"d", Opts())], []):
            progs.append(head + [("comment", LONGC), ("finish",), ("comment", b"cm"), ("finish",)])
            progs.append(head + [("comment", LONGC), ("finish",), ("write", b"xyz"), ("comment", b"cm"), ("finish",)])
            progs.append(head + [("comment", LONGC), ("finish",), ("file", b"b/c", Opts()), ("write", b"xyz"), ("comment", b""), ("finish",)])
        # the encryption option: only start_file + write*
        for m in (0, 8):
            progs.append([("file", b"enc", Opts(method=m, pw=b"pw")), ("write", b"secret"), ("write", b" data"), ("file", b"plain", Opts()), ("write", b"p"), ("finish",)])
        runs = [dict(ops=ops) for ops in progs]
        lines, outs = wprog.with_tables(self.exes["debug"], runs)
        return [(l, dict(ops=[self.short(op) for op in ops], src=src.hex())) for l, ops in zip(lines, progs)]

    def short(self, op):
        k = op[0]
        if k in ("file", "extra", "aligned", "dir"):
            return [k, op[1].hex(), op[2].method, op[2].level, op[2].pw is not None] + ([op[3]] if k == "aligned" else [])
        if k == "symlink":
            return [k, op[1].hex(), op[2].hex()]
        if k == "write" or k == "comment":
            return [k, op[1].hex()]
        if k == "rawcopy":
            return [k, op[2], op[3].hex() if op[3] is not None else None]
        return [k]

    def oracle(self, line, meta, out):
        if out is None or "PANIC" in out or out.startswith("ABORT") or out == "TIMEOUT":
            return "a writer call panicked or the process died: %s" % (out or "")[:160]
        p = _parse_obs(out)
        if not p or len(p[0]) != 3:
            return "unexpected output " + out[:100]
        calls, dr, fin = p[0]
        ops = meta["ops"]
        # a light abstract run: which entries exist, what they hold
        entries, cur, in_extra, started, finished = [], None, False, False, False
        SRC = {0: (b"s0", b"source zero " * 3), 1: (b"s1", b"one")}
        for idx0, (op, res) in enumerate(zip(ops, calls)):
            ok = isinstance(res, list) and res and res[0] == "Ok"
            k = op[0]
            if finished and ok and k != "comment" and not (k == "write" and op[1] == ""):
                return "a call after a successful finish() succeeded: %s" % k
            if k == "write":
                if not started and ok and op[1] != "":
                    return "write succeeded although no file is being written"
                if ok and cur is not None:
                    if in_extra:
                        cur["extra"] += bytes.fromhex(op[1])
                    else:
                        cur["content"] += bytes.fromhex(op[1])
            elif k in ("file", "extra", "aligned"):
                if ok:
                    if len(op[1]) > 2 * 65535:
                        return "a name of more than 65,535 bytes was accepted"
                    if op[2] not in (0, 8, 12, 93):
                        return "an unsupported method was accepted"
                    # with extra data the compressor is only set up by end_extra_data: the level error surfaces there
                    if k == "file" and op[3] is not None and ((op[2] == 8 and not 0 <= op[3] <= 9) or (op[2] == 12 and not 1 <= op[3] <= 9) or (op[2] == 93 and not -7 <= op[3] <= 22)):
                        return "a level outside the method's range was accepted"
                    cur = dict(name=bytes.fromhex(op[1]), content=b"", extra=b"")
                    entries.append(cur)
                    started = True
                    in_extra = k == "extra"
                else:
                    # a failed start leaves the previous entry's mode in place (e.g. stuck in extra-data mode)
                    if k == "file" and len(op[1]) > 2 * 65535:
                        pass           # a name beyond the 16-bit limit is documented misuse: refused
                    elif k == "file" and op[2] in (0, 8, 12, 93) and (op[3] is None or op[2] == 0) and not finished and not any(
                            (isinstance(c, list) and c and c[0] == "Err") for c in calls[:idx0]) and not any(
                            o[0] in ("extra", "aligned") for o in ops[:idx0]):
                        return "a valid start_file failed in a fresh state: %s" % res
            elif k == "endextra":
                if ok and not in_extra:
                    return "end_extra_data succeeded although no extra data was being written"
                if ok:
                    in_extra = False
                else:
                    in_extra = in_extra
            elif k == "endlocal":
                if ok and not in_extra:
                    return "end_local_start_central_extra_data succeeded although no extra data was being written"
                if ok and cur is not None:
                    cur["extra"] = b""
            elif k in ("dir", "symlink"):
                if ok:
                    nm = bytes.fromhex(op[1])
                    entries.append(dict(name=nm + b"/" if k == "dir" and not nm.endswith((b"/", b"\\")) else nm,
                                        content=bytes.fromhex(op[2]) if k == "symlink" else b"", extra=b""))
                    cur, started, in_extra = None, False, False
            elif k == "rawcopy":
                if ok:
                    n0, c0 = SRC[op[1]]
                    entries.append(dict(name=bytes.fromhex(op[2]) if op[2] is not None else n0, content=c0, extra=b""))
                    cur, started, in_extra = None, True, False
            elif k == "finish":
                if ok:
                    finished = True
                    data = bytes.fromhex(res[1][1:])
                    listing, problems = strictzip.validate(data, {i: b"pw" for i in range(len(entries) + 2)}, lambda pw, pay: genzip.ZipCrypto(pw).decrypt(pay))
                    if problems:
                        return "finish() succeeded but the archive is not valid: " + "; ".join(problems[:3])
                    got = [(e["name"], e["content"]) for e in listing["entries"]]
                    want = [(e["name"], e["content"]) for e in entries]
                    if [g[0] for g in got] != [w[0] for w in want]:
                        return "archive holds entries %s, creation succeeded for %s" % ([g[0] for g in got], [w[0] for w in want])
                    for (gn, gc), (wn, wc) in zip(got, want):
                        if gc is not None and gc != wc:
                            return "entry %r holds %d bytes, %d were successfully written" % (gn, len(gc), len(wc))
        return None

    def nontrivial(self, line, meta, out):
        return "[Err" in (out or "") or sum(1 for o in meta["ops"] if o[0] in ("file", "extra", "aligned", "dir", "symlink", "rawcopy")) >= 2

CHECK = C12
