#!/usr/bin/env python3
"""rs2v.py — translate constants, tables and leaf arithmetic functions of zip-rs/zip
(/repo/src/*.rs) into Gallina (coq/Gen/*.v).  Re-run on every check; a file is only
rewritten when its content changes, so `make` stays incremental.

Supported Rust subset (anything else stops the translation with the function name):
integer/bool literals, paths, field access, tuple field `.0`, method calls on self,
`as` casts between unsigned integers, unary `!`, binary `* / % + - << >> & ^ | == != < > <= >= && ||`,
`(a..=b).contains(&x)`, `Wrapping(x)`, table indexing, `if`/`else`, `match` on literals / ranges /
tuples / enum paths / bindings, struct literals, `let`, `self.f = e`, `x = e`, `x op= e`,
`return`, `Ok/Err/Some/None`, `?`-free code.

Semantics: plain-integer `+ - *` are *checked* (debug-profile overflow = panic = None in the option
monad); `Wrapping<uN>` arithmetic wraps; `<<` on uN drops shifted-out bits; `as uN` truncates.
"""
import re, sys, os

REPO = os.environ.get("ZIP_REPO", "/repo")
OUT = os.path.join(os.path.dirname(os.path.abspath(__file__)), "..", "coq", "Gen")
DEFAULT_FEATURES = {"aes-crypto", "bzip2", "deflate", "time", "zstd"}

class TransError(Exception):
    pass

# ------------------------------------------------------------------ tokenizer
TOK = re.compile(r"""
   (?P<ws>\s+|//[^\n]*|/\*.*?\*/)
 | (?P<num>0x[0-9a-fA-F_]+|0b[01_]+|0o[0-7_]+|[0-9][0-9_]*)(?P<suf>u8|u16|u32|u64|u128|usize|i32|i64)?
 | (?P<id>[A-Za-z_][A-Za-z0-9_]*)
 | (?P<str>"(?:[^"\\]|\\.)*")
 | (?P<chr>'(?:[^'\\]|\\.)')
 | (?P<op>\.\.=|\.\.|::|->|=>|==|!=|<=|>=|&&|\|\||<<=|>>=|<<|>>|\+=|-=|\*=|&=|\|=|\^=|[-+*/%&|^!<>=.,;:(){}\[\]#?])
""", re.X | re.S)

def tokenize(src):
    out, i = [], 0
    while i < len(src):
        m = TOK.match(src, i)
        if not m:
            raise TransError("cannot tokenize at: " + src[i:i+30])
        i = m.end()
        if m.group("ws"):
            continue
        if m.group("num"):
            t = m.group("num").replace("_", "")
            v = int(t, 0) if not t.startswith("0o") else int(t[2:], 8)
            out.append(("num", v, m.group("suf")))
        elif m.group("id"):
            out.append(("id", m.group("id")))
        elif m.group("str"):
            out.append(("str", m.group("str")))
        elif m.group("chr"):
            out.append(("chr", m.group("chr")))
        else:
            out.append(("op", m.group("op")))
    return out

def strip_comments(src):
    return re.sub(r"//[^\n]*", "", src)

# ------------------------------------------------------------------ source location helpers
def read(rel):
    with open(os.path.join(REPO, rel)) as f:
        return f.read()

def match_brace(src, i):
    """src[i] == '{' -> index after the matching '}' (comments/strings skipped)."""
    depth = 0
    n = len(src)
    while i < n:
        c = src[i]
        if src.startswith("//", i):
            i = src.index("\n", i)
            continue
        if c == '"':
            i += 1
            while src[i] != '"':
                i += 2 if src[i] == "\\" else 1
        elif c == "'" and re.match(r"'(?:[^'\\]|\\.)'", src[i:]):
            i += len(re.match(r"'(?:[^'\\]|\\.)'", src[i:]).group(0)) - 1
        elif c == "{":
            depth += 1
        elif c == "}":
            depth -= 1
            if depth == 0:
                return i + 1
        i += 1
    raise TransError("unbalanced braces")

def find_impl(src, ty):
    """Concatenate bodies of all inherent `impl ty {` blocks."""
    bodies = []
    for m in re.finditer(r"^impl(?:<[^>]*>)?\s+%s\s*\{" % re.escape(ty), src, re.M):
        j = match_brace(src, m.end() - 1)
        bodies.append(src[m.end():j - 1])
    if not bodies:
        raise TransError("impl %s not found" % ty)
    return "\n".join(bodies)

def find_fn(src, name):
    m = re.search(r"\bfn\s+%s\s*(?:<[^>]*>)?\s*\(" % re.escape(name), src)
    if not m:
        raise TransError("fn %s not found" % name)
    # parameter list
    i = m.end() - 1
    depth = 0
    j = i
    while True:
        if src[j] == "(":
            depth += 1
        elif src[j] == ")":
            depth -= 1
            if depth == 0:
                break
        j += 1
    params = src[i + 1:j]
    k = src.index("{", j)
    ret = src[j + 1:k].strip()
    ret = ret[2:].strip() if ret.startswith("->") else "()"
    end = match_brace(src, k)
    return params, ret, src[k:end]

def find_struct(src, name):
    m = re.search(r"\bstruct\s+%s\s*\{" % re.escape(name), src)
    if not m:
        raise TransError("struct %s not found" % name)
    j = match_brace(src, m.end() - 1)
    body = strip_comments(src[m.end():j - 1])
    fields = []
    for fm in re.finditer(r"(?:pub(?:\([a-z]+\))?\s+)?([a-z_][a-z0-9_]*)\s*:\s*([^,\n]+),", body):
        fields.append((fm.group(1), fm.group(2).strip()))
    return fields

def cfg_true(expr):
    expr = expr.strip()
    m = re.match(r'feature\s*=\s*"([^"]+)"$', expr)
    if m:
        return m.group(1) in DEFAULT_FEATURES
    m = re.match(r"(any|all|not)\((.*)\)$", expr, re.S)
    if m:
        parts, depth, cur = [], 0, ""
        for ch in m.group(2):
            if ch == "(":
                depth += 1
            if ch == ")":
                depth -= 1
            if ch == "," and depth == 0:
                parts.append(cur)
                cur = ""
            else:
                cur += ch
        if cur.strip():
            parts.append(cur)
        vals = [cfg_true(p) for p in parts]
        return {"any": any(vals), "all": all(vals), "not": not vals[0]}[m.group(1)]
    if expr in ("unix",):
        return True
    if expr in ("windows", "test", "doc"):
        return False
    if expr.startswith("target_"):
        return False
    raise TransError("cfg: " + expr)

# ------------------------------------------------------------------ types
INTW = {"u8": 8, "u16": 16, "u32": 32, "u64": 64, "usize": 64, "u128": 128}

class Ctx:
    def __init__(self):
        self.records = {}     # name -> [(field, type)]
        self.enums = {}       # name -> [(ctor, payload type or None, discriminant)]
        self.tables = {}      # name -> (elem type, length)
        self.fns = {}         # (Type, name) -> dict(params, ret, maypanic, mutates)
        self.consts = {}      # name -> (type, value)

def parse_type(s):
    s = s.strip()
    if s in INTW or s in ("bool", "i32", "i64"):
        return s
    m = re.match(r"Wrapping<(u\d+)>$", s)
    if m:
        return ("W", m.group(1))
    m = re.match(r"Option<(.*)>$", s)
    if m:
        return ("opt", parse_type(m.group(1)))
    m = re.match(r"Result<(.*),\s*\(\)>$", s)
    if m:
        return ("opt", parse_type(m.group(1)))
    if s == "()":
        return "unit"
    s = s.split("::")[-1]
    if re.match(r"[A-Z][A-Za-z0-9]*$", s):
        return ("named", s)
    return ("unsupported", s)

def width(t):
    if isinstance(t, tuple) and t[0] == "W":
        return INTW[t[1]]
    return INTW.get(t)

def coq_type(t, ctx):
    if t in INTW or (isinstance(t, tuple) and t[0] == "W"):
        return "N"
    if t == "bool":
        return "bool"
    if t == "unit":
        return "unit"
    if isinstance(t, tuple) and t[0] == "named":
        return t[1]
    if isinstance(t, tuple) and t[0] == "opt":
        return "(option %s)" % coq_type(t[1], ctx)
    raise TransError("coq_type %r" % (t,))

# ------------------------------------------------------------------ parser (Pratt)
class P:
    def __init__(self, toks):
        self.t, self.i = toks, 0
    def peek(self, k=0):
        return self.t[self.i + k] if self.i + k < len(self.t) else ("eof",)
    def next(self):
        x = self.peek()
        self.i += 1
        return x
    def isop(self, s, k=0):
        p = self.peek(k)
        return p[0] == "op" and p[1] == s
    def isid(self, s=None, k=0):
        p = self.peek(k)
        return p[0] == "id" and (s is None or p[1] == s)
    def expect(self, s):
        if not self.isop(s):
            raise TransError("expected %s got %r" % (s, self.peek()))
        self.i += 1
    def skip_attrs(self):
        """returns False if a #[cfg(..)] attribute evaluates to false"""
        keep = True
        while self.isop("#"):
            self.next()
            self.expect("[")
            depth, txt = 1, ""
            while depth:
                x = self.next()
                if x == ("op", "["):
                    depth += 1
                if x == ("op", "]"):
                    depth -= 1
                if depth:
                    txt += x[1] if x[0] != "num" else str(x[1])
                    if x[0] == "str":
                        pass
            m = re.match(r"cfg\((.*)\)$", txt, re.S)
            if m:
                inner = re.sub(r'feature="', 'feature = "', m.group(1))
                inner = inner.replace('feature=', 'feature = ')
                keep = keep and cfg_true(inner)
        return keep

    # ---- blocks and statements
    def block(self):
        self.expect("{")
        stmts = []
        while not self.isop("}"):
            keep = self.skip_attrs()
            if self.isop("{"):            # nested bare block (e.g. after #[allow])
                b = self.block()
                if keep:
                    stmts.append(("expr", ("block", b), not self.isop("}")))
                continue
            s = self.stmt()
            if keep:
                stmts.append(s)
        self.expect("}")
        return stmts
    def stmt(self):
        if self.isid("let"):
            self.next()
            if self.isid("mut"):
                self.next()
            name = self.next()[1]
            ty = None
            if self.isop(":"):
                self.next()
                ty = self.type_text()
            self.expect("=")
            e = self.expr()
            self.expect(";")
            return ("let", name, ty, e)
        if self.isid("return"):
            self.next()
            e = self.expr()
            if self.isop(";"):
                self.next()
            return ("return", e)
        if self.isid("use"):
            while not self.isop(";"):
                self.next()
            self.next()
            return ("nop",)
        e = self.expr()
        for op in ("=", "+=", "-=", "*=", "&=", "|=", "^=", "<<=", ">>="):
            if self.isop(op):
                self.next()
                r = self.expr()
                self.expect(";")
                if op != "=":
                    r = ("bin", op[:-1], e, r)
                return ("assign", e, r)
        if self.isop(";"):
            self.next()
            return ("expr", e, True)
        return ("expr", e, False)
    def type_text(self):
        txt, depth = "", 0
        while True:
            p = self.peek()
            if p[0] == "op" and p[1] in ("=", ";", ",", ")", "{") and depth == 0:
                break
            if p == ("op", "<"):
                depth += 1
            if p == ("op", ">"):
                depth -= 1
            if p == ("op", ">>"):
                depth -= 2
            self.next()
            txt += str(p[1])
        return txt

    # ---- expressions
    BIN = [("||",), ("&&",), ("==", "!=", "<", ">", "<=", ">="), ("|",), ("^",), ("&",),
           ("<<", ">>"), ("+", "-"), ("*", "/", "%")]
    def expr(self, level=0, nostruct=False):
        if level == len(self.BIN):
            return self.cast(nostruct)
        l = self.expr(level + 1, nostruct)
        while self.peek()[0] == "op" and self.peek()[1] in self.BIN[level]:
            op = self.next()[1]
            r = self.expr(level + 1, nostruct)
            l = ("bin", op, l, r)
        return l
    def cast(self, nostruct):
        e = self.unary(nostruct)
        while self.isid("as"):
            self.next()
            e = ("cast", e, self.next()[1])
        return e
    def unary(self, nostruct):
        if self.isop("!"):
            self.next()
            return ("not", self.unary(nostruct))
        if self.isop("&") or self.isop("*"):
            self.next()
            if self.isid("mut"):
                self.next()
            return self.unary(nostruct)
        return self.postfix(self.atom(nostruct))
    def postfix(self, e):
        while True:
            if self.isop("."):
                self.next()
                p = self.next()
                if p[0] == "num":
                    e = ("tfield", e, p[1])
                elif self.isop("("):
                    e = ("mcall", e, p[1], self.args())
                else:
                    e = ("field", e, p[1])
            elif self.isop("["):
                self.next()
                ix = self.expr()
                self.expect("]")
                e = ("index", e, ix)
            elif self.isop("?"):
                raise TransError("`?` not supported")
            else:
                return e
    def args(self):
        self.expect("(")
        a = []
        while not self.isop(")"):
            a.append(self.expr())
            if self.isop(","):
                self.next()
        self.expect(")")
        return a
    def atom(self, nostruct):
        p = self.peek()
        if p[0] == "num":
            self.next()
            return ("num", p[1], p[2])
        if self.isop("("):
            self.next()
            if self.isop(")"):
                self.next()
                return ("unit",)
            e = self.expr()
            if self.isop("..="):
                self.next()
                hi = self.expr()
                self.expect(")")
                return ("range", e, hi)
            if self.isop(","):
                items = [e]
                while self.isop(","):
                    self.next()
                    if self.isop(")"):
                        break
                    items.append(self.expr())
                self.expect(")")
                return ("tuple", items)
            self.expect(")")
            return ("paren", e)
        if self.isop("{"):
            return ("block", self.block())
        if self.isid("if"):
            self.next()
            c = self.expr(nostruct=True)
            th = self.block()
            el = None
            if self.isid("else"):
                self.next()
                if self.isid("if"):
                    el = [("expr", self.atom(False), False)]
                else:
                    el = self.block()
            return ("if", c, th, el)
        if self.isid("match"):
            self.next()
            scrut = self.expr(nostruct=True)
            self.expect("{")
            arms = []
            while not self.isop("}"):
                keep = self.skip_attrs()
                pat = self.pattern()
                self.expect("=>")
                body = self.expr()
                if self.isop(","):
                    self.next()
                if keep:
                    arms.append((pat, body))
            self.expect("}")
            return ("match", scrut, arms)
        if p[0] == "id":
            path = [self.next()[1]]
            while self.isop("::"):
                self.next()
                path.append(self.next()[1])
            if self.isop("(") :
                return ("call", path, self.args())
            if self.isop("{") and not nostruct and path[-1][0].isupper():
                self.next()
                fields = []
                while not self.isop("}"):
                    fname = self.next()[1]
                    if self.isop(":"):
                        self.next()
                        fields.append((fname, self.expr()))
                    else:
                        fields.append((fname, ("path", [fname])))
                    if self.isop(","):
                        self.next()
                self.expect("}")
                return ("struct", path[-1], fields)
            return ("path", path)
        raise TransError("unexpected token %r" % (p,))
    def pattern(self):
        alts = [self.pattern1()]
        while self.isop("|"):
            self.next()
            alts.append(self.pattern1())
        return alts[0] if len(alts) == 1 else ("por", alts)
    def pattern1(self):
        p = self.peek()
        if p[0] == "num":
            self.next()
            if self.isop("..="):
                self.next()
                hi = self.next()
                return ("prange", p[1], hi[1])
            return ("pnum", p[1])
        if self.isop("("):
            self.next()
            items = []
            while not self.isop(")"):
                items.append(self.pattern())
                if self.isop(","):
                    self.next()
            self.expect(")")
            return ("ptuple", items)
        if p[0] == "id":
            path = [self.next()[1]]
            while self.isop("::"):
                self.next()
                path.append(self.next()[1])
            if path == ["_"]:
                return ("pwild",)
            if path == ["true"] or path == ["false"]:
                return ("pbool", path[0] == "true")
            sub = None
            if self.isop("("):
                self.next()
                sub = []
                while not self.isop(")"):
                    sub.append(self.pattern())
                    if self.isop(","):
                        self.next()
                self.expect(")")
            if len(path) == 1 and path[0][0].islower() and sub is None:
                return ("pbind", path[0])
            return ("pctor", path[-1], sub)
        raise TransError("pattern %r" % (p,))

# ------------------------------------------------------------------ code generation
class Gen:
    """Translates one function body.  Expressions yield (coq term, rust type).  Checked
    operations are hoisted into `obind` bindings of the enclosing block."""
    def __init__(self, ctx, selfty, fname, params, ret):
        self.ctx, self.selfty, self.fname = ctx, selfty, fname
        self.env = dict(params)          # var -> type
        self.ret = ret
        self.tmp = 0
        self.maypanic = False
        self.mutates = False
        self.hoist = None                # list of (name, optionterm) for the current statement

    def fresh(self):
        self.tmp += 1
        return "t%d_" % self.tmp

    def unify(self, a, b):
        if a is None:
            return b
        if b is None:
            return a
        if a != b:
            # usize/u64 interchangeable for our purposes
            if {a, b} <= {"u64", "usize"}:
                return "u64"
            raise TransError("%s: type mismatch %r vs %r" % (self.fname, a, b))
        return a

    def checked(self, term):
        self.maypanic = True
        v = self.fresh()
        self.hoist.append((v, term, "bind"))
        return v

    def purelet(self, term):
        v = self.fresh()
        self.hoist.append((v, term, "let"))
        return v

    def expr(self, e, want=None):
        k = e[0]
        if k == "num":
            t = e[2] or want
            return ("%d" % e[1], t)
        if k == "paren":
            c, t = self.expr(e[1], want)
            return ("(%s)" % c, t)
        if k == "unit":
            return ("tt", "unit")
        if k == "path":
            p = e[1]
            if len(p) == 1:
                n = p[0]
                if n in ("true", "false"):
                    return (n, "bool")
                if n == "self":
                    return ("self", ("named", self.selfty))
                if n in self.env:
                    return (n, self.env[n])
                if n in self.ctx.consts:
                    return (n, self.ctx.consts[n][0])
                if n == "None":
                    return ("None", ("opt", want[1] if isinstance(want, tuple) and want[0] == "opt" else None))
                if n in self.imported_ctors():
                    return (self.imported_ctors()[n], ("named", self.ctor_owner(n)))
                raise TransError("%s: unknown name %s" % (self.fname, n))
            if p[-2:] == ["u32", "MAX"] or p == ["u32", "MAX"]:
                return ("4294967295", "u32")
            if p[-2:] == ["u16", "MAX"]:
                return ("65535", "u16")
            if p[-1] in self.ctx.consts:
                return (p[-1], self.ctx.consts[p[-1]][0])
            owner, ctor = p[-2], p[-1]
            if owner in self.ctx.enums:
                return ("%s_%s" % (owner, ctor), ("named", owner))
            raise TransError("%s: unknown path %s" % (self.fname, "::".join(p)))
        if k == "field":
            c, t = self.expr(e[1])
            if not (isinstance(t, tuple) and t[0] == "named" and t[1] in self.ctx.records):
                raise TransError("%s: field of non-record %r" % (self.fname, t))
            for f, ft in self.ctx.records[t[1]]:
                if f == e[2]:
                    return ("(%s_%s %s)" % (t[1], f, c), ft)
            raise TransError("%s: no field %s in %s" % (self.fname, e[2], t[1]))
        if k == "tfield":
            c, t = self.expr(e[1], want)
            if isinstance(t, tuple) and t[0] == "W" and e[2] == 0:
                return (c, t[1])
            raise TransError("%s: tuple field on %r" % (self.fname, t))
        if k == "cast":
            c, t = self.expr(e[1])
            tgt = e[2]
            if isinstance(t, tuple) and t[0] == "named" and t[1] in self.ctx.enums and tgt in INTW:
                return ("(%s_to_N %s)" % (t[1], c), tgt)
            if tgt not in INTW:
                raise TransError("%s: cast to %s" % (self.fname, tgt))
            if t is None or (width(t) is not None and width(t) <= INTW[tgt]):
                return (c, tgt)
            if width(t) is None:
                raise TransError("%s: cast from %r" % (self.fname, t))
            return ("(cast %d %s)" % (INTW[tgt], c), tgt)
        if k == "not":
            c, t = self.expr(e[1], want)
            if t == "bool":
                return ("(negb %s)" % c, "bool")
            raise TransError("%s: `!` on %r" % (self.fname, t))
        if k == "bin":
            return self.binop(e, want)
        if k == "call":
            return self.call(e, want)
        if k == "mcall":
            return self.mcall(e, want)
        if k == "index":
            tbl = e[1]
            if tbl[0] != "path" or tbl[1][-1] not in self.ctx.tables:
                raise TransError("%s: index into non-table" % self.fname)
            name = tbl[1][-1]
            et, n = self.ctx.tables[name]
            ic, it = self.expr(e[2], "usize")
            src = e[2]
            while src[0] == "paren":
                src = src[1]
            inner_t = None
            if src[0] == "cast":
                _, inner_t = self.expr(src[1])
            if inner_t is not None and width(inner_t) is not None and 2 ** width(inner_t) <= n:
                return ("(nth (N.to_nat %s) %s 0)" % (ic, name), et)   # statically in bounds
            v = self.checked("(nth_error %s (N.to_nat %s))" % (name, ic))
            return (v, et)
        if k == "if":
            cc, ct = self.expr(e[1], "bool")
            a = self.block_value(e[2], want)
            b = self.block_value(e[3], want) if e[3] is not None else (("tt", "unit"), False)
            (ac, at), ap = a
            (bc, bt), bp = b
            t = self.unify(at, bt)
            if ap or bp:
                if not ap:
                    ac = "(Some %s)" % ac
                if not bp:
                    bc = "(Some %s)" % bc
                v = self.checked("(if %s then %s else %s)" % (cc, ac, bc))
                return (v, t)
            return ("(if %s then %s else %s)" % (cc, ac, bc), t)
        if k == "match":
            return self.match(e, want)
        if k == "struct":
            name = e[1]
            if name not in self.ctx.records:
                raise TransError("%s: unknown struct %s" % (self.fname, name))
            given = dict(e[2])
            parts = []
            for f, ft in self.ctx.records[name]:
                if f not in given:
                    raise TransError("%s: struct literal %s lacks %s" % (self.fname, name, f))
                c, t = self.expr(given[f], ft)
                self.unify(t, ft)
                parts.append("%s_%s := %s" % (name, f, c))
            return ("{| %s |}" % "; ".join(parts), ("named", name))
        if k == "tuple":
            cs = [self.expr(x) for x in e[1]]
            return ("(%s)" % ", ".join(c for c, _ in cs), ("tuple", [t for _, t in cs]))
        if k == "block":
            (c, t), p = self.block_value(e[1], want)
            if p:
                return (self.checked(c), t)
            return (c, t)
        raise TransError("%s: expression kind %s" % (self.fname, k))

    def imported_ctors(self):
        d = {}
        for en, ctors in self.ctx.enums.items():
            for c, _, _ in ctors:
                d.setdefault(c, "%s_%s" % (en, c))
        return d
    def ctor_owner(self, c):
        for en, ctors in self.ctx.enums.items():
            if any(c == x for x, _, _ in ctors):
                return en

    def binop(self, e, want):
        op = e[1]
        if op in ("&&", "||"):
            a, _ = self.expr(e[2], "bool")
            b, _ = self.expr(e[3], "bool")
            return ("(%s %s %s)" % (a, op, b), "bool")
        cmp_ops = ("==", "!=", "<", ">", "<=", ">=")
        w = None if op in cmp_ops else want
        a, ta = self.expr(e[2], w)
        b, tb = self.expr(e[3], ta if op not in ("<<", ">>") else None)
        if ta is None and tb is not None and op not in ("<<", ">>"):
            a, ta = self.expr(e[2], tb)
        if op in ("<<", ">>"):
            t = ta
            if t is None:
                t = want
            if width(t) is None:
                raise TransError("%s: shift on %r" % (self.fname, t))
            if e[3][0] != "num" or e[3][1] >= width(t):
                raise TransError("%s: non-literal or oversize shift" % self.fname)
            if op == "<<":
                return ("(shl %d %s %s)" % (width(t), a, b), t)
            return ("(N.shiftr %s %s)" % (a, b), t)
        t = self.unify(ta, tb)
        if op in cmp_ops:
            if isinstance(t, tuple) and t[0] == "named":
                if op == "==":
                    return ("(%s_eqb %s %s)" % (t[1], a, b), "bool")
                if op == "!=":
                    return ("(negb (%s_eqb %s %s))" % (t[1], a, b), "bool")
                raise TransError("%s: ordering on enum" % self.fname)
            if t == "bool":
                f = {"==": "(Bool.eqb %s %s)", "!=": "(negb (Bool.eqb %s %s))"}[op]
                return (f % (a, b), "bool")
            f = {"==": "(%s =? %s)", "!=": "(negb (%s =? %s))", "<": "(%s <? %s)",
                 "<=": "(%s <=? %s)", ">": "(%s >? %s)", ">=": "(%s >=? %s)"}[op]
            if op == ">":
                return ("(%s <? %s)" % (b, a), "bool")
            if op == ">=":
                return ("(%s <=? %s)" % (b, a), "bool")
            return (f % (a, b), "bool")
        if op in ("&", "|", "^"):
            if t == "bool":
                f = {"&": "andb", "|": "orb", "^": "xorb"}[op]
            else:
                f = {"&": "N.land", "|": "N.lor", "^": "N.lxor"}[op]
            return ("(%s %s %s)" % (f, a, b), t)
        if width(t) is None:
            raise TransError("%s: arithmetic on %r" % (self.fname, t))
        wrapping = isinstance(t, tuple) and t[0] == "W"
        if op == "+":
            if wrapping:
                return ("(wrap %d (%s + %s))" % (width(t), a, b), t)
            return (self.checked("(add_chk %d %s %s)" % (width(t), a, b)), t)
        if op == "*":
            if wrapping:
                return ("(wrap %d (%s * %s))" % (width(t), a, b), t)
            return (self.checked("(mul_chk %d %s %s)" % (width(t), a, b)), t)
        if op == "-":
            if wrapping:
                return ("(wrap %d (%s + 2 ^ %d - %s))" % (width(t), a, width(t), b), t)
            return (self.checked("(sub_chk %s %s)" % (a, b)), t)
        lit_nz = e[3][0] == "num" and e[3][1] != 0
        if op == "%":
            return ("(%s mod %s)" % (a, b), t) if lit_nz else (self.checked("(mod_chk %s %s)" % (a, b)), t)
        if op == "/":
            return ("(%s / %s)" % (a, b), t) if lit_nz else (self.checked("(div_chk %s %s)" % (a, b)), t)
        raise TransError("%s: operator %s" % (self.fname, op))

    def call(self, e, want):
        path, args = e[1], e[2]
        name = path[-1]
        if name == "Wrapping" and len(args) == 1:
            inner_want = want[1] if isinstance(want, tuple) and want[0] == "W" else None
            c, t = self.expr(args[0], inner_want)
            if t is None:
                return (c, None)        # literal: adopts the other operand's Wrapping type
            return (c, ("W", t))
        if name in ("Some", "Ok") and len(args) == 1:
            inner = want[1] if isinstance(want, tuple) and want[0] == "opt" else None
            c, t = self.expr(args[0], inner)
            return ("(Some %s)" % c, ("opt", t))
        if name == "Err":
            return ("None", ("opt", want[1] if isinstance(want, tuple) and want[0] == "opt" else None))
        owner = path[-2] if len(path) >= 2 else self.selfty
        if owner == "Self":
            owner = self.selfty
        if owner in self.ctx.enums and any(name == c for c, _, _ in self.ctx.enums[owner]):
            payload = [p for c, p, _ in self.ctx.enums[owner] if c == name][0]
            c, t = self.expr(args[0], payload)
            return ("(%s_%s %s)" % (owner, name, c), ("named", owner))
        if (owner, name) in self.ctx.fns:
            r = self.apply_fn(owner, name, None, args)
            return (r[0], r[1])
        raise TransError("%s: call to %s" % (self.fname, "::".join(path)))

    def apply_fn(self, owner, name, selfterm, args):
        f = self.ctx.fns[(owner, name)]
        cs = []
        if selfterm is not None:
            cs.append(selfterm)
        params = [p for p in f["params"] if p[0] != "self"]
        if len(params) != len(args):
            raise TransError("%s: arity of %s" % (self.fname, name))
        for (pn, pt), a in zip(params, args):
            c, t = self.expr(a, pt)
            self.unify(t, pt)
            cs.append(c)
        term = "(%s_%s %s)" % (owner, name, " ".join(cs)) if cs else "%s_%s" % (owner, name)
        if f["maypanic"]:
            term = self.checked(term)
        return (term, f["ret"], f)

    def mcall(self, e, want):
        recv, name, args = e[1], e[2], e[3]
        if recv[0] in ("range",) and name == "contains":
            lo, tl = self.expr(recv[1])
            x, tx = self.expr(args[0])
            lo, _ = self.expr(recv[1], tx)
            hi, _ = self.expr(recv[2], tx)
            return ("((%s <=? %s) && (%s <=? %s))" % (lo, x, x, hi), "bool")
        if recv[0] == "paren" and recv[1][0] == "range":
            return self.mcall(("mcall", recv[1], name, args), want)
        rc, rt = self.expr(recv)
        if isinstance(rt, tuple) and rt[0] == "named" and (rt[1], name) in self.ctx.fns:
            f = self.ctx.fns[(rt[1], name)]
            if f["mutates"]:
                if recv != ("path", ["self"]):
                    raise TransError("%s: mutating call on non-self" % self.fname)
                r = self.apply_fn(rt[1], name, rc, args)
                self.mutates = True
                return ("mut", r[0], r[1])
            r = self.apply_fn(rt[1], name, rc, args)
            return (r[0], r[1])
        if name == "min" and len(args) == 1:
            b, tb = self.expr(args[0], rt)
            return ("(N.min %s %s)" % (rc, b), self.unify(rt, tb))
        if name == "max" and len(args) == 1:
            b, tb = self.expr(args[0], rt)
            return ("(N.max %s %s)" % (rc, b), self.unify(rt, tb))
        if name in ("is_none", "is_some") and isinstance(rt, tuple) and rt[0] == "opt":
            return ("(%s %s)" % ("opt_is_none" if name == "is_none" else "opt_is_some", rc), "bool")
        raise TransError("%s: method %s on %r" % (self.fname, name, rt))

    # ---- patterns
    def pat_cond(self, pat, term, t, binds):
        k = pat[0]
        if k == "pwild":
            return "true"
        if k == "pbind":
            binds.append((pat[1], term, t))
            return "true"
        if k == "pnum":
            return "(%s =? %d)" % (term, pat[1])
        if k == "prange":
            return "((%d <=? %s) && (%s <=? %d))" % (pat[1], term, term, pat[2])
        if k == "pbool":
            return term if pat[1] else "(negb %s)" % term
        if k == "por":
            return "(" + " || ".join(self.pat_cond(p, term, t, binds) for p in pat[1]) + ")"
        if k == "pctor":
            en = t[1]
            ctors = self.ctx.enums.get(en)
            if ctors is None:
                raise TransError("%s: ctor pattern on %r" % (self.fname, t))
            if pat[2] is None:
                return "(%s_eqb %s %s_%s)" % (en, term, en, pat[1])
            payload = [p for c, p, _ in ctors if c == pat[1]][0]
            sub = pat[2][0]
            if sub[0] == "pbind":
                binds.append((sub[1], "(%s_%s_payload %s)" % (en, pat[1], term), payload))
            elif sub[0] != "pwild":
                raise TransError("%s: nested ctor pattern" % self.fname)
            return "(%s_is_%s %s)" % (en, pat[1], term)
        raise TransError("%s: pattern %r" % (self.fname, pat))

    def match(self, e, want):
        scrut = e[1]
        while scrut[0] == "paren":
            scrut = scrut[1]
        if scrut[0] == "tuple":
            comps = [self.expr(x) for x in scrut[1]]
        else:
            comps = [self.expr(scrut)]
        # bind scrutinee components to names (pure let via hoist Some)
        names = []
        for c, t in comps:
            v = self.purelet(c)
            names.append((v, t))
        arms = []
        anyp = False
        rt = None
        for pat, body in e[2]:
            binds = []
            if len(names) > 1:
                if pat[0] == "pwild":
                    cond = "true"
                elif pat[0] == "ptuple":
                    cond = "(" + " && ".join(self.pat_cond(p, n, t, binds)
                                            for p, (n, t) in zip(pat[1], names)) + ")"
                else:
                    raise TransError("%s: tuple match pattern" % self.fname)
            else:
                cond = self.pat_cond(pat, names[0][0], names[0][1], binds)
            saved = dict(self.env)
            pre = ""
            for bn, bterm, bt in binds:
                self.env[bn] = bt
                pre += "let %s := %s in " % (bn, bterm)
            (bc, bt), bp = self.block_value([("expr", body, False)], want)
            self.env = saved
            rt = self.unify(rt, bt) if bt is not None else rt
            anyp = anyp or bp
            arms.append((cond, pre, bc, bp))
        # last arm is the default
        def build(i):
            cond, pre, bc, bp = arms[i]
            val = bc if (bp or not anyp) else "(Some %s)" % bc
            val = "(%s%s)" % (pre, val) if pre else val
            if i == len(arms) - 1:
                return val          # rustc guarantees exhaustiveness: the last arm is the default
            return "(if %s then %s else %s)" % (cond, val, build(i + 1))
        term = build(0)
        if anyp:
            return (self.checked(term), rt)
        return (term, rt)

    # ---- blocks: returns ((term, type), is_option)
    def block_value(self, stmts, want):
        saved_hoist = self.hoist
        saved_env = dict(self.env)
        lines = []        # list of ("bind", v, optterm) | ("let", v, term)
        result = None
        for idx, s in enumerate(stmts):
            self.hoist = []
            k = s[0]
            if k == "nop":
                continue
            if k == "let":
                ty = parse_type(s[2]) if s[2] else None
                r = self.expr(s[3], ty)
                c, t = (r[1], r[2]) if r[0] == "mut" else r
                if r[0] == "mut":
                    # (self', value) pair returned by a mutating method
                    f = None
                    lines += [(kd, v, o) for v, o, kd in self.hoist]
                    lines.append(("letpair", "self", s[1], c))
                    self.env[s[1]] = t
                    continue
                t = self.unify(t, ty) if ty else t
                lines += [(kd, v, o) for v, o, kd in self.hoist]
                lines.append(("let", s[1], c))
                self.env[s[1]] = t
            elif k == "assign":
                lhs = s[1]
                if lhs[0] == "field" and lhs[1] == ("path", ["self"]):
                    ft = dict(self.ctx.records[self.selfty])[lhs[2]]
                    c, t = self.expr(s[2], ft)
                    self.unify(t, ft)
                    lines += [(kd, v, o) for v, o, kd in self.hoist]
                    lines.append(("let", "self", "(set_%s_%s self %s)" % (self.selfty, lhs[2], c)))
                    self.mutates = True
                elif lhs[0] == "path" and len(lhs[1]) == 1 and lhs[1][0] in self.env:
                    n = lhs[1][0]
                    c, t = self.expr(s[2], self.env[n])
                    lines += [(kd, v, o) for v, o, kd in self.hoist]
                    lines.append(("let", n, c))
                else:
                    raise TransError("%s: assignment target" % self.fname)
            elif k == "return":
                c, t = self.expr(s[1], self.ret)
                lines += [(kd, v, o) for v, o, kd in self.hoist]
                result = (c, t)
                break
            elif k == "expr":
                e = s[1]
                is_last = idx == len(stmts) - 1 and not s[2]
                if e[0] == "if" and e[3] is None and self.only_returns(e[2]):
                    # early return: if c { return X; }  rest...
                    cc, _ = self.expr(e[1], "bool")
                    lines += [(kd, v, o) for v, o, kd in self.hoist]
                    (ac, at), ap = self.block_value(e[2], self.ret)
                    rest = stmts[idx + 1:]
                    (bc, bt), bp = self.block_value(rest, want)
                    t = self.unify(at, bt)
                    if ap or bp:
                        if not ap:
                            ac = "(Some %s)" % ac
                        if not bp:
                            bc = "(Some %s)" % bc
                        self.maypanic = True
                        lines.append(("tailopt", "(if %s then %s else %s)" % (cc, ac, bc)))
                    else:
                        lines.append(("tail", "(if %s then %s else %s)" % (cc, ac, bc)))
                    result = ("", t)
                    break
                if e[0] == "if" and e[3] is None and not is_last_value(stmts, idx) and self.only_assigns(e[2]):
                    cc, _ = self.expr(e[1], "bool")
                    cv = self.purelet(cc)
                    lines += [(kd, v, o) for v, o, kd in self.hoist]
                    for a in e[2]:
                        self.hoist = []
                        n = a[1][1][0]
                        c, t = self.expr(a[2], self.env[n])
                        if self.hoist:
                            raise TransError("%s: checked arithmetic under conditional assignment" % self.fname)
                        lines.append(("let", n, "(if %s then %s else %s)" % (cv, c, n)))
                    continue
                r = self.expr(e, want if is_last else None)
                lines += [(kd, v, o) for v, o, kd in self.hoist]
                if r[0] != "mut" and not is_last:
                    raise TransError("%s: discarded expression statement" % self.fname)
                if r[0] == "mut":
                    if is_last and r[2] not in ("unit", None):
                        lines.append(("letpair", "self", "r_", r[1]))
                        result = ("r_", r[2])
                    else:
                        lines.append(("let", "self", r[1]))
                elif is_last:
                    result = r
            else:
                raise TransError("%s: statement %s" % (self.fname, k))
        self.hoist = saved_hoist
        if result is None:
            result = ("tt", "unit")
        term, isopt = self.assemble(lines, result[0])
        self.env = saved_env if not self.top else self.env
        return ((term, result[1]), isopt)

    top = False
    def only_assigns(self, stmts):
        return bool(stmts) and all(st[0] == "assign" and st[1][0] == "path" and len(st[1][1]) == 1
                                   and st[1][1][0] in self.env for st in stmts)
    def only_returns(self, stmts):
        return len(stmts) == 1 and stmts[0][0] == "return"

    def assemble(self, lines, final):
        isopt = any(l[0] in ("bind", "tailopt") for l in lines)
        if lines and lines[-1][0] in ("tail", "tailopt"):
            body = lines[-1][1]
            if isopt and lines[-1][0] == "tail":
                body = "(Some %s)" % body
            lines = lines[:-1]
        else:
            body = "(Some %s)" % final if isopt else final
        for l in reversed(lines):
            if l[0] == "bind":
                body = "(obind %s (fun %s => %s))" % (l[2], l[1], body)
            elif l[0] == "let":
                body = "(let %s := %s in %s)" % (l[1], l[2], body)
            elif l[0] == "letpair":
                body = "(let '(%s, %s) := %s in %s)" % (l[1], l[2], l[3], body)
        return body, isopt


def is_last_value(stmts, idx):
    return idx == len(stmts) - 1 and not stmts[idx][2]

def parse_params(txt):
    out = []
    for p in [x.strip() for x in txt.split(",") if x.strip()]:
        if re.match(r"&?\s*(mut\s+)?self$", p):
            out.append(("self", None))
            continue
        n, t = p.split(":", 1)
        n = n.strip()
        if n.startswith("mut "):
            n = n[4:]
        out.append((n.strip(), parse_type(t.strip().lstrip("&").strip())))
    return out


def translate_fn(ctx, owner_src, owner, name):
    params_txt, ret_txt, body = find_fn(owner_src, name)
    params = parse_params(params_txt)
    ret = parse_type(ret_txt)
    if isinstance(ret, tuple) and ret[0] == "named" and ret[1] == "Self":
        ret = ("named", owner)
    has_self = any(p[0] == "self" for p in params)
    g = Gen(ctx, owner, "%s::%s" % (owner, name),
            [(n, t) for n, t in params if n != "self"], ret)
    toks = tokenize(body)
    stmts = P(toks).block()
    g.hoist = []
    g.top = True
    (term, t), isopt = g.block_value(stmts, ret)
    g.unify(t if t != "unit" else ret if ret == "unit" else t, ret) if not g.mutates else None
    args = []
    if has_self:
        args.append("(self : %s)" % owner)
    for n, ty in params:
        if n != "self":
            args.append("(%s : %s)" % (n, coq_type(ty, ctx)))
    # result shape
    if g.mutates:
        if ret == "unit":
            rterm_ty = owner
            # final value is the updated self
            term = re.sub(r"\(Some tt\)$", "", term)
            # re-assemble: replace trailing result `tt` by self
            term = replace_tail(term, "tt", "self")
        else:
            rterm_ty = "(%s * %s)" % (owner, coq_type(ret, ctx))
            term = replace_tail_pair(term)
    else:
        rterm_ty = coq_type(ret, ctx)
    if isopt:
        rterm_ty = "option %s" % rterm_ty
    ctx.fns[(owner, name)] = dict(params=params, ret=ret, maypanic=isopt, mutates=g.mutates)
    return "Definition %s_%s %s : %s :=\n  %s.\n" % (owner, name, " ".join(args), rterm_ty, term)


def replace_tail(term, old, new):
    """replace the last occurrence of the result token."""
    i = term.rfind(old)
    if i < 0:
        raise TransError("tail not found")
    return term[:i] + new + term[i + len(old):]

def replace_tail_pair(term):
    # result of a mutating value-returning method: last token is the value name -> (self, value)
    m = re.search(r"([A-Za-z_0-9']+)(\)*)$", term)
    return term[:m.start()] + "(self, %s)" % m.group(1) + m.group(2)

# ------------------------------------------------------------------ emitters
PRELUDE = """(* GENERATED by tools/rs2v.py from %s — do not edit. *)
From ZipV Require Import Base.Bytes Base.Outcome.
Open Scope N_scope.
Open Scope bool_scope.
"""

GENLIB = """(* GENERATED by tools/rs2v.py — helper operations used by generated code. *)
From ZipV Require Import Base.Bytes Base.Outcome.
Open Scope N_scope.
Definition cast (w x : N) : N := x mod 2 ^ w.
Definition shl (w x k : N) : N := (N.shiftl x k) mod 2 ^ w.
Definition mod_chk (a b : N) : option N := if b =? 0 then None else Some (a mod b).
Definition div_chk (a b : N) : option N := if b =? 0 then None else Some (a / b).
Definition opt_is_none {A} (o : option A) : bool := match o with None => true | _ => false end.
Definition opt_is_some {A} (o : option A) : bool := match o with None => false | _ => true end.
"""

def emit_record(ctx, name, fields):
    ok = []
    for f, t in fields:
        pt = parse_type(t)
        if pt in INTW or pt == "bool" or (isinstance(pt, tuple) and pt[0] == "W"):
            ok.append((f, pt))
        elif isinstance(pt, tuple) and pt[0] == "named" and (pt[1] in ctx.records or pt[1] in ctx.enums):
            ok.append((f, pt))
    ctx.records[name] = ok
    s = "Record %s := { %s }.\n" % (name, "; ".join("%s_%s : %s" % (name, f, coq_type(t, ctx)) for f, t in ok))
    for f, t in ok:
        s += "Definition set_%s_%s (r : %s) (v : %s) : %s :=\n  {| %s |}.\n" % (
            name, f, name, coq_type(t, ctx), name,
            "; ".join("%s_%s := %s" % (name, g, "v" if g == f else "%s_%s r" % (name, g)) for g, _ in ok))
    return s

def emit_enum(ctx, name, src):
    m = re.search(r"\benum\s+%s\s*\{" % name, src)
    j = match_brace(src, m.end() - 1)
    toks = tokenize(src[m.end():j - 1])
    p = P(toks)
    ctors = []
    nextd = 0
    while p.peek()[0] != "eof":
        keep = p.skip_attrs()
        cname = p.next()[1]
        payload = None
        disc = None
        if p.isop("("):
            p.next()
            payload = parse_type(p.next()[1])
            p.expect(")")
        if p.isop("="):
            p.next()
            disc = p.next()[1]
        if p.isop(","):
            p.next()
        if disc is None:
            disc = nextd
        nextd = disc + 1
        if keep:
            ctors.append((cname, payload, disc))
    ctx.enums[name] = ctors
    s = "Inductive %s :=\n" % name
    for c, pl, _ in ctors:
        s += "| %s_%s%s\n" % (name, c, " (v : %s)" % coq_type(pl, ctx) if pl else "")
    s = s.rstrip("\n") + ".\n"
    # eqb
    s += "Definition %s_eqb (a b : %s) : bool :=\n  match a, b with\n" % (name, name)
    for c, pl, _ in ctors:
        if pl:
            s += "  | %s_%s x, %s_%s y => x =? y\n" % (name, c, name, c)
        else:
            s += "  | %s_%s, %s_%s => true\n" % (name, c, name, c)
    s += "  | _, _ => false\n  end.\n"
    if not any(pl for _, pl, _ in ctors):
        s += "Definition %s_to_N (a : %s) : N :=\n  match a with\n" % (name, name)
        for c, _, d in ctors:
            s += "  | %s_%s => %d\n" % (name, c, d)
        s += "  end.\n"
    for c, pl, _ in ctors:
        if pl:
            s += "Definition %s_is_%s (a : %s) : bool := match a with %s_%s _ => true | _ => false end.\n" % (name, c, name, name, c)
            s += "Definition %s_%s_payload (a : %s) : N := match a with %s_%s v => v | _ => 0 end.\n" % (name, c, name, name, c)
    return s

def emit_table(ctx, name, src, elem):
    m = re.search(r"\b%s\s*:\s*\[\s*%s\s*;\s*(\d+)\s*\]\s*=\s*\[" % (name, elem), src)
    if not m:
        raise TransError("table %s not found" % name)
    j = src.index("]", m.end())
    vals = [int(x.replace("_", ""), 0) for x in re.findall(r"0x[0-9a-fA-F_]+|\d+", src[m.end():j])]
    n = int(m.group(1))
    if len(vals) != n:
        raise TransError("table %s: %d values for length %d" % (name, len(vals), n))
    ctx.tables[name] = (elem, n)
    body = ";\n  ".join("; ".join(str(v) for v in vals[i:i + 8]) for i in range(0, n, 8))
    return "Definition %s : list N :=\n [%s].\n" % (name, body)

def emit_const(ctx, name, src, ty=None):
    m = re.search(r"\bconst\s+%s\s*:\s*(\w+)\s*=\s*([^;]+);" % name, src)
    if not m:
        raise TransError("const %s not found" % name)
    t = m.group(1)
    g = Gen(ctx, None, "const " + name, [], t)
    g.hoist = []
    c, _ = g.expr(P(tokenize(m.group(2))).expr(), t)
    if g.hoist:
        raise TransError("const %s needs checked arithmetic" % name)
    ctx.consts[name] = (t if t != "usize" else "u64", None)
    return "Definition %s : N := %s.\n" % (name, c)

def gen_cp437(src):
    params, ret, body = find_fn(src, "to_char")
    tbl = [None] * 256
    # integer literals in any Rust spelling: hex / octal / binary / decimal, underscores, optional type suffix
    LIT = r"(?:0x[0-9a-fA-F_]+|0o[0-7_]+|0b[01_]+|[0-9][0-9_]*)(?:_?(?:u8|u16|u32|u64|usize|i32))?"
    def rust_int(t):
        t = re.sub(r"_?(?:u8|u16|u32|u64|usize|i32)$", "", t.strip()).replace("_", "")
        return int(t, 0) if re.match(r"0[xob]", t) else int(t, 10)
    for m in re.finditer(r"(%s)\s*(?:\.\.=\s*(%s))?\s*=>\s*([^,]+)," % (LIT, LIT), strip_comments(body)):
        lo = rust_int(m.group(1))
        hi = rust_int(m.group(2)) if m.group(2) else lo
        rhs = m.group(3).strip()
        for b in range(lo, hi + 1):
            if b > 255:
                raise TransError("cp437 arm out of range")
            if re.match(LIT + r"$", rhs):
                v = rust_int(rhs)
            elif re.match(r"input\s+as\s+u32$", rhs):
                v = b
            else:
                raise TransError("cp437 arm rhs: " + rhs)
            if tbl[b] is None:       # first matching arm wins
                tbl[b] = v
    if any(v is None for v in tbl):
        raise TransError("cp437 table not total")
    if not re.search(r"char::from_u32\(output\)\.unwrap\(\)", body):
        raise TransError("cp437 to_char tail changed")
    body_v = ";\n  ".join("; ".join(str(v) for v in tbl[i:i + 8]) for i in range(0, 256, 8))
    return (PRELUDE % "src/cp437.rs") + "Definition CP437_TABLE : list N :=\n [%s].\n" % body_v

def generate():
    files = {}
    ctx = Ctx()
    files["GenLib.v"] = GENLIB
    imp = "From ZipV Require Import Gen.GenLib.\n"

    # ---- spec.rs constants + record_too_small
    spec = read("src/spec.rs")
    s = PRELUDE % "src/spec.rs" + imp
    for c in ["LOCAL_FILE_HEADER_SIGNATURE", "CENTRAL_DIRECTORY_HEADER_SIGNATURE",
              "CENTRAL_DIRECTORY_END_SIGNATURE", "ZIP64_CENTRAL_DIRECTORY_END_SIGNATURE",
              "ZIP64_CENTRAL_DIRECTORY_END_LOCATOR_SIGNATURE", "ZIP64_BYTES_THR", "ZIP64_ENTRY_THR"]:
        s += emit_const(ctx, c, spec)
    s += emit_record(ctx, "CentralDirectoryEnd", find_struct(spec, "CentralDirectoryEnd"))
    s += translate_fn(ctx, find_impl(spec, "CentralDirectoryEnd"), "CentralDirectoryEnd", "record_too_small")
    files["SpecGen.v"] = s

    # ---- compression.rs
    comp = read("src/compression.rs")
    s = PRELUDE % "src/compression.rs" + imp
    s += emit_enum(ctx, "CompressionMethod", comp)
    impl = find_impl(comp, "CompressionMethod")
    s += translate_fn(ctx, impl, "CompressionMethod", "from_u16")
    s += translate_fn(ctx, impl, "CompressionMethod", "to_u16")
    files["CompressionGen.v"] = s

    # ---- types.rs
    types = read("src/types.rs")
    s = PRELUDE % "src/types.rs" + imp + "From ZipV Require Import Gen.SpecGen Gen.CompressionGen.\n"
    s += emit_const(ctx, "DEFAULT_VERSION", types)
    ffi = re.search(r"mod ffi \{(.*?)\n\}", types, re.S).group(1)
    for c in ["S_IFDIR", "S_IFREG"]:
        s += emit_const(ctx, c, ffi)
    s += emit_enum(ctx, "System", types)
    s += translate_fn(ctx, find_impl(types, "System"), "System", "from_u8")
    s += emit_record(ctx, "DateTime", find_struct(types, "DateTime"))
    impl = find_impl(types, "DateTime")
    for f in ["from_msdos", "from_date_and_time", "timepart", "datepart"]:
        s += translate_fn(ctx, impl, "DateTime", f)
    s += emit_enum(ctx, "AesMode", types)
    impl = find_impl(types, "AesMode")
    for f in ["key_length", "salt_length"]:
        s += translate_fn(ctx, impl, "AesMode", f)
    s += emit_record(ctx, "ZipFileData", find_struct(types, "ZipFileData"))
    impl = find_impl(types, "ZipFileData")
    for f in ["unix_mode", "zip64_extension", "version_needed"]:
        s += translate_fn(ctx, impl, "ZipFileData", f)
    files["TypesGen.v"] = s

    # ---- zipcrypto.rs
    zc = read("src/zipcrypto.rs")
    s = PRELUDE % "src/zipcrypto.rs" + imp
    s += emit_table(ctx, "CRCTABLE", zc, "u32")
    s += emit_record(ctx, "ZipCryptoKeys", find_struct(zc, "ZipCryptoKeys"))
    impl = find_impl(zc, "ZipCryptoKeys")
    for f in ["new", "crc32", "update", "stream_byte", "decrypt_byte", "encrypt_byte"]:
        s += translate_fn(ctx, impl, "ZipCryptoKeys", f)
    files["ZipCryptoGen.v"] = s

    # ---- cp437.rs
    files["Cp437Gen.v"] = gen_cp437(read("src/cp437.rs"))

    # ---- reference CP437 table from CPython's codec (Unicode consortium mapping), independent of the crate
    ref = [ord(bytes([b]).decode("cp437")) for b in range(256)]
    files["Cp437Ref.v"] = ("(* GENERATED by tools/rs2v.py from CPython's cp437 codec — do not edit. *)\n"
                           "From ZipV Require Import Base.Bytes.\nOpen Scope N_scope.\n"
                           "Definition CP437_REF : list N :=\n [%s].\n" %
                           ";\n  ".join("; ".join(str(v) for v in ref[i:i + 8]) for i in range(0, 256, 8)))

    # ---- write.rs: reserved extra-field ids, CRC32_OFFSET
    wr = read("src/write.rs")
    s = PRELUDE % "src/write.rs" + imp
    s += emit_table(ctx, "EXTRA_FIELD_MAPPING", wr, "u16")
    s += emit_const(ctx, "CRC32_OFFSET", wr)
    files["WriteGen.v"] = s

    # ---- aes.rs constants
    aes = read("src/aes.rs")
    s = PRELUDE % "src/aes.rs" + imp
    for c in ["PWD_VERIFY_LENGTH", "AUTH_CODE_LENGTH", "ITERATION_COUNT"]:
        s += emit_const(ctx, c, aes)
    files["AesGen.v"] = s
    return files

def main():
    try:
        files = generate()
    except TransError as e:
        print("rs2v: TRANSLATION FAILED: %s" % e)
        sys.exit(2)
    os.makedirs(OUT, exist_ok=True)
    changed = []
    for name, content in files.items():
        path = os.path.join(OUT, name)
        old = open(path).read() if os.path.exists(path) else None
        if old != content:
            with open(path, "w") as f:
                f.write(content)
            changed.append(name)
    print("rs2v: ok (%d files, changed: %s)" % (len(files), ",".join(changed) or "none"))

if __name__ == "__main__":
    main()
