"""zvlib — shared machinery of the zip verification checks (see DESIGN.md section 6).

Pipeline of one check:  translator -> coq build of Props/Cxx.vo (+ extraction) -> audit
(forbidden tokens, Print Assumptions allowlist, pinned statements) -> cargo build of the
harness against /repo's working tree -> generate cases -> run implementation and extracted
model -> diff + model-free property oracle -> evidence -> verdict.
"""
import fcntl, glob, hashlib, json, os, random, re, shutil, subprocess, sys, time

ROOT = os.path.dirname(os.path.dirname(os.path.abspath(__file__)))
COQ = os.path.join(ROOT, "coq")
CACHE = os.path.join(ROOT, ".cache")
EVID = os.path.join(ROOT, "evidence")
REPLAY = os.path.join(EVID, "replay")
REPO = os.environ.get("ZIP_REPO", "/repo")
TARGET = os.path.join(CACHE, "target")
ENV = dict(os.environ, CARGO_NET_OFFLINE="true", CARGO_TARGET_DIR=TARGET)
ALLOWED_AXIOMS = set()          # target: every property theorem is closed under the global context

FORBIDDEN = re.compile(r"\b(Admitted|admit|Axiom|Axioms|Parameter|Parameters|Conjecture|Conjectures|"
                       r"Admit Obligations|Unset Guard Checking|bypass_check|Unset Positivity Checking|"
                       r"Unset Universe Checking|type-in-type|impredicative-set)\b")


def log(*a):
    print("[zv]", *a, flush=True)


class Lock:
    def __init__(self, name):
        os.makedirs(CACHE, exist_ok=True)
        self.path = os.path.join(CACHE, name + ".lock")
    def __enter__(self):
        self.f = open(self.path, "w")
        fcntl.flock(self.f, fcntl.LOCK_EX)
    def __exit__(self, *a):
        fcntl.flock(self.f, fcntl.LOCK_UN)
        self.f.close()


def run(cmd, cwd=None, timeout=900, env=None, input=None):
    try:
        p = subprocess.run(cmd, cwd=cwd, env=env or ENV, input=input, capture_output=True, text=True,
                           timeout=timeout)
        return p.returncode, p.stdout + p.stderr
    except subprocess.TimeoutExpired as e:
        return 124, "TIMEOUT after %ss: %s" % (timeout, " ".join(cmd) if isinstance(cmd, list) else cmd)


# ---------------------------------------------------------------- build steps
def translate():
    rc, out = run([sys.executable, os.path.join(ROOT, "tools", "rs2v.py")], timeout=120)
    return rc == 0, out.strip()


def coq_make(targets, timeout=1500):
    """make the given .vo targets (serialised by a lock); returns (ok, output)."""
    with Lock("coq"):
        run([os.path.join(ROOT, "bin", "mkproject")], timeout=60)
        rc, out = run(["make", "-j16", "-k"] + targets, cwd=COQ, timeout=timeout)
    return rc == 0, out


def coq_failed_files(out):
    return sorted(set(re.findall(r'File "\./([^"]+)", line', out)))


def build_model():
    """extract + compile the OCaml driver; returns path or None."""
    ok, out = coq_make(["Extract/Extract.vo"])
    if not ok:
        return None, out
    with Lock("ocaml"):
        src = os.path.join(COQ, "zipmodel.ml")
        dst = os.path.join(ROOT, "ocaml", "zipmodel.ml")
        exe = os.path.join(CACHE, "driver")
        need = not os.path.exists(exe) or not os.path.exists(dst) or \
            open(src).read() != open(dst).read() or \
            os.path.getmtime(os.path.join(ROOT, "ocaml", "driver.ml")) > os.path.getmtime(exe)
        if need:
            shutil.copy(src, dst)
            shutil.copy(os.path.join(COQ, "zipmodel.mli"), os.path.join(ROOT, "ocaml", "zipmodel.mli"))
            rc, o = run(["ocamlfind", "ocamlopt", "-O3", "-w", "-a", "zipmodel.mli", "zipmodel.ml",
                         "driver.ml", "-o", exe], cwd=os.path.join(ROOT, "ocaml"), timeout=600)
            if rc != 0:
                return None, o
    return exe, ""


def build_harness(profiles=("debug",)):
    """cargo build of the harness against /repo's *current working tree*."""
    out_all = ""
    with Lock("cargo"):
        lock = os.path.join(ROOT, "harness", "Cargo.lock")
        if not os.path.exists(lock):
            shutil.copy(os.path.join(REPO, "Cargo.lock"), lock)
        for prof in profiles:
            cmd = ["cargo", "build", "--offline", "--quiet"] + (["--release"] if prof == "release" else [])
            env = dict(ENV, RUSTFLAGS="--cfg zip_verif -Awarnings")
            rc, out = run(cmd, cwd=os.path.join(ROOT, "harness"), timeout=1500, env=env)
            out_all += out
            if rc != 0:
                return None, out_all
    return {p: os.path.join(TARGET, p, "impl_run") for p in profiles}, out_all


# ---------------------------------------------------------------- audit
def audit_sources():
    bad = []
    for f in glob.glob(os.path.join(COQ, "**", "*.v"), recursive=True):
        if os.path.basename(f).startswith("cases"):
            continue
        src = open(f).read()
        src = re.sub(r"\(\*.*?\*\)", "", src, flags=re.S)
        for m in FORBIDDEN.finditer(src):
            bad.append("%s: %s" % (os.path.relpath(f, COQ), m.group(0)))
        if re.search(r"^\s*(Variable|Variables|Hypothesis|Hypotheses|Context)\b", src, re.M):
            # allowed only inside a Section
            depth = 0
            for line in src.splitlines():
                if re.match(r"\s*Section\b", line):
                    depth += 1
                elif re.match(r"\s*End\b", line) and depth > 0:
                    depth -= 1
                elif re.match(r"\s*(Variable|Variables|Hypothesis|Hypotheses|Context)\b", line) and depth == 0:
                    bad.append("%s: section-less %s" % (os.path.relpath(f, COQ), line.strip()[:40]))
    return bad


def theorems_of(pid):
    src = open(os.path.join(COQ, "Props", pid + ".v")).read()
    src_nc = re.sub(r"\(\*.*?\*\)", "", src, flags=re.S)
    return re.findall(r"^\s*(?:Theorem|Corollary)\s+(\w+)", src_nc, re.M)


def check_assumptions(pid):
    """compile a tiny file that re-prints the assumptions of every property theorem and checks
    the pinned statements; returns (ok, {thm: assumptions}, output)."""
    thms = theorems_of(pid)
    pins = os.path.join(COQ, "Props", pid + "_pins.txt")
    body = "From ZipV Require Import Props.%s.\n" % pid
    for t in thms:
        body += 'Print Assumptions %s.\n' % t
    path = os.path.join(CACHE, "chk_%s.v" % pid)
    open(path, "w").write(body)
    rc, out = run(["coqc", "-Q", COQ, "ZipV", path], cwd=CACHE, timeout=300)
    if rc != 0:
        return False, {}, out
    blocks = re.split(r"(?=Closed under the global context|Axioms:)", out)
    blocks = [b.strip() for b in blocks if b.strip()]
    res = {}
    ok = len(blocks) == len(thms)
    for t, b in zip(thms, blocks):
        if b.startswith("Closed under the global context"):
            res[t] = []
        else:
            ax = re.findall(r"^(\S+)\s*:", b, re.M)
            res[t] = ax
            if any(a not in ALLOWED_AXIOMS for a in ax):
                ok = False
    # pinned statements
    if os.path.exists(pins):
        want = [l.strip() for l in open(pins) if l.strip()]
        have = statement_hashes(pid)
        for w in want:
            if w not in have:
                ok = False
                out += "\nPIN MISMATCH: %s" % w
    return ok, res, out


def statement_hashes(pid):
    src = open(os.path.join(COQ, "Props", pid + ".v")).read()
    src = re.sub(r"\(\*.*?\*\)", "", src, flags=re.S)
    out = []
    for m in re.finditer(r"(?:Theorem|Corollary)\s+(\w+)\s*:(.*?)\.\s*\n\s*Proof\.", src, re.S):
        stmt = re.sub(r"\s+", " ", m.group(2)).strip()
        out.append("%s %s" % (m.group(1), hashlib.sha256(stmt.encode()).hexdigest()[:16]))
    return out


# ---------------------------------------------------------------- running both sides
SHARD_TIMEOUT = 600        # seconds per shard; the thorough tier raises it (set in Check.__init__)


def run_lines(exe, lines, shards=16, timeout=None, ulimit_stack=False):
    """feed request lines to `exe` over `shards` processes; returns list of responses (same order).
    A process that dies mid-way yields 'ABORT' for the request it died on and is restarted."""
    n = len(lines)
    if n == 0:
        return []
    if timeout is None:
        timeout = SHARD_TIMEOUT
    shards = max(1, min(shards, n))
    chunks = [list(range(i, n, shards)) for i in range(shards)]
    res = [None] * n
    procs = []
    for idxs in chunks:
        procs.append(_start(exe, [lines[i] for i in idxs], ulimit_stack))
    for idxs, p in zip(chunks, procs):
        _collect(exe, p, idxs, lines, res, timeout, ulimit_stack)
    return res


def _start(exe, lines, ulimit_stack):
    cmd = [exe] if not ulimit_stack else ["bash", "-c", "ulimit -s unlimited 2>/dev/null || ulimit -s 1000000; exec " + exe]
    import tempfile
    os.makedirs(os.path.join(CACHE, "io"), exist_ok=True)
    f = tempfile.TemporaryFile(mode="w+", dir=os.path.join(CACHE, "io"))
    f.write("\n".join(lines) + "\n")
    f.flush()
    f.seek(0)
    # stdout goes to a file as well: with a pipe a shard whose output exceeds the pipe buffer would block until
    # the collector gets to it, which serialises the shards
    o = tempfile.TemporaryFile(mode="w+", dir=os.path.join(CACHE, "io"))
    p = subprocess.Popen(cmd, stdin=f, stdout=o, stderr=subprocess.DEVNULL, text=True)
    f.close()
    p._zv_out = o
    return p


def _finish(p, timeout):
    """wait for the process; returns (output so far, timed_out)"""
    timed_out = False
    try:
        p.wait(timeout=timeout)
    except subprocess.TimeoutExpired:
        p.kill()
        p.wait()
        timed_out = True
    p._zv_out.seek(0)
    out = p._zv_out.read()
    p._zv_out.close()
    return out, timed_out


def _collect(exe, p, idxs, lines, res, timeout, ulimit_stack):
    out, timed_out = _finish(p, timeout)
    if timed_out:
        out = out or ""
        outs = out.split("\n")[:-1] if out.endswith("\n") else out.split("\n")[:-1]
        for k, i in enumerate(idxs):
            res[i] = outs[k] if k < len(outs) else ("TIMEOUT" if k == len(outs) else None)
        rest = [i for k, i in enumerate(idxs) if k > len(outs)]
        if rest:
            p2 = _start(exe, [lines[i] for i in rest], ulimit_stack)
            _collect(exe, p2, rest, lines, res, timeout, ulimit_stack)
        return
    outs = out.split("\n")
    if outs and outs[-1] == "":
        outs.pop()
    for k, i in enumerate(idxs):
        if k < len(outs):
            res[i] = outs[k]
    if len(outs) < len(idxs):
        died = len(outs)
        res[idxs[died]] = "ABORT(rc=%s)" % p.returncode
        rest = idxs[died + 1:]
        if rest:
            p2 = _start(exe, [lines[i] for i in rest], ulimit_stack)
            _collect(exe, p2, rest, lines, res, timeout, ulimit_stack)


def _parse_obs(s):
    """nested-list parse of an observation line: '[a [b c] d]' -> ['a', ['b','c'], 'd']"""
    toks = re.findall(r"\[|\]|[^\s\[\]]+", s or "")
    def go(i):
        out = []
        while i < len(toks):
            t = toks[i]
            if t == "[":
                sub, i = go(i + 1)
                out.append(sub)
            elif t == "]":
                return out, i + 1
            else:
                out.append(t)
                i += 1
        return out, i
    return go(0)[0]


def _match_skip(impl, model):
    if model == "SKIP":
        return True
    if isinstance(impl, list) != isinstance(model, list):
        return False
    if not isinstance(impl, list):
        return impl == model
    if len(impl) != len(model):
        return False
    return all(_match_skip(a, b) for a, b in zip(impl, model))


# ---------------------------------------------------------------- known findings
def known_findings():
    path = os.path.join(ROOT, "known_findings.txt")
    out = []
    if os.path.exists(path):
        for l in open(path):
            l = l.strip()
            m = re.match(r"finding:\s+property=(\w+)\s+key=(\S+)\s+(.*)", l)
            if m:
                out.append((m.group(1), m.group(2), m.group(3)))
    return out


# ---------------------------------------------------------------- the check driver
class Check:
    """One property check.  Subclasses provide:
       pid, gen(rng, tier) -> list of (line, meta), oracle(line, meta, impl_out) -> None | str,
       nontrivial(line, meta, impl_out) -> bool, search(ctx) -> None | (line, why)."""
    pid = None
    profiles = ("debug",)
    compare_model = True
    rule = ""
    trusted = []
    assumptions = []
    level = "proof"

    def __init__(self, tier, seed):
        self.tier, self.seed = tier, seed
        global SHARD_TIMEOUT
        SHARD_TIMEOUT = 600 if tier == "quick" else 7200
        self.rng = random.Random(seed)
        self.t0 = time.time()
        self.notes = []

    # hooks
    def gen(self):
        return []
    def oracle(self, line, meta, out):
        return None
    def nontrivial(self, line, meta, out):
        return True
    def search(self, exes):
        return None
    def extra_checks(self, exes, model):
        """additional implementation-only checks; returns list of (replay_dict, why)"""
        return []
    def finding_key(self, line, meta, why):
        return None
    def canon(self, s):
        return s
    def same(self, impl_out, model_out):
        # the model does not decompress/decrypt every container: a SKIP token stands for "whatever the
        # implementation reports at this place" (one token or one bracketed group); the oracle still judges it
        if model_out == "SKIP-AES":
            return True
        if model_out is None or impl_out is None:
            return model_out == impl_out
        if "SKIP" not in model_out:
            return self.canon(impl_out) == self.canon(model_out)
        return _match_skip(_parse_obs(self.canon(impl_out)), _parse_obs(self.canon(model_out)))

    def write_replay(self, n, payload):
        os.makedirs(REPLAY, exist_ok=True)
        path = os.path.join(REPLAY, "%s-%d.json" % (self.pid, n))
        def dflt(o):
            if isinstance(o, (bytes, bytearray)):
                return "x" + bytes(o[:4096]).hex() + ("...(%d bytes)" % len(o) if len(o) > 4096 else "")
            return str(o)[:2000]
        json.dump(payload, open(path, "w"), indent=1, default=dflt)
        return os.path.relpath(path, ROOT)

    def main(self):
        pid = self.pid
        violations = []      # (replay path, suffix)
        broken = []          # names of theorems / correspondence families that no longer check
        cov = dict(obligations=0, discharged=0, evaluations=0, distinct_nontrivial=0, programs=0,
                   disagreements_checked=0, samples=[], rule=self.rule)
        # 1. translator
        ok, tout = translate()
        log(tout)
        if not ok:
            broken.append("translator: " + tout)
        # 2. proofs
        okc, cout = coq_make(["Props/%s.vo" % pid])
        thms = theorems_of(pid)
        cov["obligations"] = len(thms)
        ass = {}
        if okc:
            oka, ass, aout = check_assumptions(pid)
            if not oka:
                broken.append("assumptions/pins: " + aout[-600:])
            else:
                cov["discharged"] = len(thms)
        else:
            failed = coq_failed_files(cout)
            m = re.search(r'File "\./([^"]+)", line (\d+).*?\n(Error:.*?)(?:\n\n|\Z)', cout, re.S)
            broken.append("proof: %s :: %s" % (",".join(failed) or "make failed", (m.group(3)[:300] if m else cout[-300:])))
            log("COQ BUILD FAILED:\n" + cout[-1500:])
        bad = audit_sources()
        if bad:
            broken.append("audit: " + "; ".join(bad[:5]))
        # 3. executables
        model, mout = build_model() if self.compare_model else (None, "")
        if self.compare_model and model is None:
            broken.append("model extraction: " + mout[-400:])
        exes, hout = build_harness(self.profiles)
        if exes is None:
            log("HARNESS BUILD FAILED:\n" + hout[-3000:])
            path = self.write_replay(0, dict(property=pid, kind="harness-build-failure", output=hout[-4000:],
                                             note="the harness no longer compiles against /repo (API the property relies on changed)"))
            self.finish(cov, [(path, " no-failing-input-found")], ass, broken + ["harness build"])
            return 1
        # 4. cases
        self.exes, self.model = exes, model
        cases = self.gen()
        lines = [c[0] for c in cases]
        cov["evaluations"] = len(lines)
        outs = {}
        for prof, exe in exes.items():
            outs[prof] = run_lines(exe, lines)
        if model:
            # cases marked impl_only are decided by the oracle on the implementation; the model is not run on them
            idx = [i for i, c in enumerate(cases) if not (isinstance(c[1], dict) and c[1].get("impl_only"))]
            res = run_lines(model, [lines[i] for i in idx], ulimit_stack=True) if idx else []
            mouts = [None] * len(lines)
            for i, r_ in zip(idx, res):
                mouts[i] = r_
        else:
            mouts = None
        seen = set()
        nviol = 0
        known = [(k, txt) for (p, k, txt) in known_findings() if p == pid]
        known_hit = set()
        disagree = []
        for i, (line, meta) in enumerate(cases):
            io = outs[self.profiles[0]][i]
            why = None
            for prof in self.profiles:
                o = outs[prof][i]
                w = self.oracle(line, meta, o)
                if w:
                    why = "[%s] %s" % (prof, w)
                    break
            if mouts is not None and why is None and not (isinstance(meta, dict) and meta.get("impl_only")):
                for prof in self.profiles:
                    if not self.same(outs[prof][i], mouts[i]):
                        disagree.append((i, prof))
                        break
            if why:
                key = self.finding_key(line, meta, why)
                if key and any(k == key for k, _ in known):
                    known_hit.add(key)
                    continue
                nviol += 1
                if nviol <= 5:
                    path = self.write_replay(nviol, dict(property=pid, request=line, meta=meta, why=why,
                                                         impl={p: outs[p][i] for p in self.profiles},
                                                         model=mouts[i] if mouts else None,
                                                         replay_cmd="bin/zv replay %s" % pid))
                    violations.append((path, ""))
            h = hashlib.md5((self.canon(io) or "").encode()).hexdigest()
            if self.nontrivial(line, meta, io) and h not in seen:
                seen.add(h)
        cov["distinct_nontrivial"] = len(seen)
        cov["programs"] = len(lines)
        cov["disagreements_checked"] = sum(1 for m_ in mouts if m_ is not None) if mouts is not None else 0
        cov["samples"] = [dict(request=lines[i][:300], impl=(outs[self.profiles[0]][i] or "")[:300],
                               model=(mouts[i] or "")[:300] if mouts else None)
                          for i in self.sample_indices(len(lines))]
        cov["disagreements"] = len(disagree)
        # 5. extra implementation-only checks
        for payload, why in self.extra_checks(exes, model):
            key = payload.get("finding_key")
            if key and any(k == key for k, _ in known):
                known_hit.add(key)
                continue
            nviol += 1
            if nviol <= 5:
                payload.update(property=pid, why=why)
                violations.append((self.write_replay(nviol, payload), ""))
        # 6. correspondence disagreements that the oracle did not classify as violations
        if disagree and not violations:
            i, prof = disagree[0]
            broken.append("correspondence: %d disagreements, first: %s" % (len(disagree), lines[i][:200]))
            log("DISAGREEMENT on: %s\n  impl[%s]: %s\n  model: %s" % (lines[i][:400], prof, outs[prof][i][:400] if outs[prof][i] else None, mouts[i][:400] if mouts[i] else None))
        # 7. tie broken but no violation yet -> search for a failing input
        if broken and not violations:
            found = self.search(exes)
            if found:
                payload, why = found
                payload.update(property=pid, why=why, broken=broken)
                violations.append((self.write_replay(1, payload), ""))
            else:
                payload = dict(property=pid, broken=broken,
                               note="the property is no longer shown to hold: a theorem or the correspondence "
                                    "no longer checks; the search found no concrete failing input")
                if disagree:
                    i, prof = disagree[0]
                    payload["disagreeing_case"] = dict(request=lines[i], impl=outs[prof][i], model=mouts[i])
                violations.append((self.write_replay(1, payload), " no-failing-input-found"))
        for k, txt in known:
            if k in known_hit:
                print("KNOWN-FINDING: property=%s %s" % (pid, txt))
        self.finish(cov, violations, ass, broken)
        return 1 if violations else 0

    def sample_indices(self, n):
        if n == 0:
            return []
        r = random.Random(self.seed + 1)
        return sorted(set([0] + [r.randrange(n) for _ in range(4)]))

    def finish(self, cov, violations, ass, broken):
        os.makedirs(EVID, exist_ok=True)
        cov["checker_cmd"] = "make -C coq Props/%s.vo && coqc chk_%s.v (Print Assumptions)" % (self.pid, self.pid)
        cov["trusted_base"] = ["Coq 8.16.1 kernel (coqc; vm_compute used for finite sweeps)",
                               "tools/rs2v.py translator (Rust subset -> Gallina)",
                               "extraction: ExtrOcamlBasic only; ocaml/driver.ml (Obj.magic on byte constructors)",
                               "harness/ (Rust) + tools/ (Python) correspondence machinery"] + list(self.trusted)
        cov["axioms"] = {t: a for t, a in ass.items()}
        cov["broken"] = broken
        cov["notes"] = self.notes
        ev = dict(property_id=self.pid, tier=self.tier, seed=self.seed, level=self.level, coverage=cov,
                  assumptions=list(self.assumptions), wall_s=round(time.time() - self.t0, 2),
                  violations=len(violations))
        json.dump(ev, open(os.path.join(EVID, self.pid + ".json"), "w"), indent=1)
        for path, suffix in violations:
            print("VIOLATION property=%s replay=%s%s" % (self.pid, path, suffix))
        log("%s: %s (%d theorems, %d cases, %d nontrivial, %.1fs)" % (
            self.pid, "VIOLATION" if violations else "ok", cov["obligations"], cov["evaluations"],
            cov["distinct_nontrivial"], time.time() - self.t0))
