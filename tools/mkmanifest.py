#!/usr/bin/env python3
"""Regenerate MANIFEST.json from the table below (kept valid at all times)."""
import json, os
ROOT = os.path.dirname(os.path.dirname(os.path.abspath(__file__)))
PROPS = [json.loads(l)["id"] for l in open(os.path.join(ROOT, "properties.jsonl"))]

CLAIMED = {
 "C01": dict(
   text="Machine-checked Coq theorems over the writer and reader models.  RECORD level: every central directory record the "
        "writer can emit (any method code, CRC, attributes, 64-bit sizes/offset with or without ZIP64 block, any name <= "
        "65535 bytes, any validated user extra data), placed between arbitrary bytes, is decoded by the reader's "
        "parse_central -- fixed fields, name, extra-field walk incl. ZIP64 block and skipped user records -- to exactly the "
        "written values, and a Rust-string name comes back as the same string.  DIRECTORY level: finish() on a well-behaved "
        "sink returns  front ++ directory ++ end records  and the reader's open on exactly these bytes (backward end-record "
        "search, locator/ZIP64 decoding, directory walk) lists one entry per writer record, in order, offset 0, same comment.  "
        "END TO END for stored entries (C01_stored_roundtrip): for ANY number of entries with EVERY name, Stored options (any "
        "permissions/time), EVERY content <= 2^32-1 bytes, every compressor and 32-bit checksum function:  (start_file; "
        "write_all)*; finish  succeed and the reader opens the result, lists the entries in order, and entry i's reader "
        "DENOTES content i, so every completed read under every schedule of buffer sizes returns exactly that content (C09 "
        "lift), with the written name, method, sizes, CRC; and not only on a sink that takes every write whole: over ANY "
        "failure-free sink that splits writes arbitrarily the same program succeeds and finish() returns the very same bytes "
        "(C01_roundtrip_any_chunking, from the writer simulation of C09).  The reader's blind spot "
        "is an explicit hypothesis and a recorded known finding (D22: bytes in front of the end record that look like a "
        "ZIP64 locator), with a model witness.  Compressed and encrypted entries, k-entry programs, drop vs finish, and the "
        "tie of both models to the crate are carried by the correspondence: the writer model reproduces the crate's archive "
        "BYTE FOR BYTE on 437 random programs (all methods x levels, name/timestamp/permission/comment shapes, large_file, "
        "directories, symlinks, split writes, short-writing sinks), the reader model reads those bytes like the crate, and "
        "the oracle checks every re-read entry against what was written.",
   note="Trusted: Coq kernel, extraction+driver, harness, codec libraries as enc oracle (dec(enc x)=x checked by CPython for deflate/bzip2 and by the crate's reader for zstd). PARTIAL: the end-to-end theorem covers stored, unencrypted, non-large entries written by start_file + write_all on a well-behaved sink with an empty comment; compressed/encrypted entries are outside the reader model's decoders; directories, symlinks, extra data, short-writing sinks are covered by correspondence only. KNOWN FINDING D22 (known_findings.txt).",
   technique="Coq proof (record codec round trip, directory round trip through open, end-to-end write-then-read for stored entries lifted to all read schedules) + byte-exact writer-model correspondence and re-read oracle",
   design="8 (C01), 13"),
 "C02": dict(
   text="Machine-checked Coq theorems over the writer model: a name, archive comment, local extra data (incl. the 20-byte "
        "ZIP64 reservation) or central extra data (incl. the ZIP64 block) that does not fit its 16-bit length field is "
        "rejected with an error and the state unchanged (fixes D1/D11), and when the guards pass the length fields of "
        "the central record hold the true lengths (no truncation); the local header the writer leaves behind (after "
        "patching) and the central record it emits for the same stored entry are decoded by two different parsers of the "
        "reader model to the same raw and decoded name, UTF-8 flag (set exactly for non-ASCII names), encryption flag, "
        "method, timestamp, CRC-32 and sizes; with C01's theorems the emitted directory and end records point exactly at "
        "the records they describe (the reader walks them back) and ZIP64 records appear iff needed (C08).  Whole-archive "
        "validity as judged by INDEPENDENT parsers is carried by the "
        "correspondence: writer programs mixing plain, extra-data, aligned, ZipCrypto, raw-copied, appended, directory and "
        "symlink entries and lengths at 65535/65536/65537/70000 are run on the crate and on the byte-exact writer model; "
        "every archive a successful finish returns is judged by an independent strict validator written from APPNOTE "
        "(end records last and consistent, directory extent and count, local = central, extras well-formed TLV, regions "
        "disjoint, UTF-8 flag iff non-ASCII, ZIP64 iff needed and version >= 45, payload decodes to recorded CRC/size), "
        "by CPython zipfile and by Info-ZIP unzip -t.",
   note="Trusted: Coq kernel, extraction+driver, harness, strictzip.py/zipfile/unzip as judges. PARTIAL: 'finish ops = Ok bytes -> valid bytes' as a Coq theorem over a Gallina strict parser is not yet proved; validity is decided per generated archive by the independent judges.",
   technique="Coq proof (16-bit length guards and exact length fields) + byte-exact writer-model correspondence judged by three independent validators",
   design="8 (C02)"),
 "C17": dict(
   text="Machine-checked Coq theorems: for every data start and every alignment > 0 (unbounded) the padding computed by "
        "start_file_aligned satisfies (data_start + 4 + pad) mod align = 0 with pad < align, so the writer's self-check "
        "cannot fire when the padding record lands where expected; validate_extra_data accepts only data that fits 16 "
        "bits together with the ZIP64 reservation and whose first record is complete, not ZIP64 and not a reserved id; AS THE "
        "READER SEES IT: start_file_aligned for a stored entry on a well-behaved sink succeeds, leaves a local header whose "
        "(patched) length fields are the true ones, and the data offset the reader's find_content computes from that header "
        "is a multiple of the alignment (alignments 2..32768), the padding being one record accepted by the writer's own "
        "validation; USER EXTRA DATA (C17_extra_data_verbatim): start_file_with_extra_data, write of any accepted extra data x, "
        "end_extra_data on a well-behaved sink succeed, put x verbatim between name and data with the header's length field "
        "counting it, the reader's find_content lands right behind it, and the record for the central directory carries x.  "
        "Correspondence: extra-data programs (local-only, central-only, both, multi-record, invalid, oversize, "
        "alignments 0/1/2/4/64/4096/65535/non-powers, large_file, after prior entries, on appended archives) compared "
        "byte for byte with the writer model; oracle: data_start % align = 0 as seen by the crate's own reader and by the "
        "strict validator, extras recovered verbatim from local and central records.",
   note="Trusted: Coq kernel, extraction+driver, harness, strictzip.py. PARTIAL: the reader-side theorems cover stored, unencrypted, non-large entries on a well-behaved sink; the central-only part of user extra data, large_file / compressed / encrypted entries are decided by the byte-exact correspondence.",
   technique="Coq proof (alignment arithmetic for all offsets and alignments, extra-data validation, aligned entry and user extra data as the reader sees them) + byte-exact writer-model correspondence",
   design="8 (C17)"),
 "C13": dict(
   text="Machine-checked Coq theorems over the writer model: opening for append re-hydrates exactly the directory the reader "
        "model parses (same find_eocd / get_directory_counts / parse_cd), keeps every byte of the sink, positions it on the "
        "old directory start, keeps the archive comment and sets the raw flag that protects the last old entry; the record "
        "re-emitted for an old entry carries its name, method, CRC, sizes, time, attributes, made-by and header offset and is "
        "decoded by the reader to those values (central-record round trip).  C13_old_bytes_preserved: for EVERY sequence "
        "of writer calls after new_append (any arguments, legal or not, any results), every compressor and checksum, on "
        "every sink that splits writes arbitrarily but does not fail, the bytes in front of the old directory are never "
        "touched (invariant over the whole writer state machine, Proofs/FloorInv.v: the cursor never goes below the old "
        "directory start and header patching only addresses records started behind it); C13_failing_sink_refuted shows by "
        "computation that the failure-free hypothesis cannot be dropped.  THE LISTING (C13_listing_old_then_new): after any "
        "call sequence the writer's list of records -- what finish() renders -- is the directory the reader parses from the "
        "old archive, in its order, followed by the creations that succeeded, in call order: no old entry is dropped, renamed "
        "or reordered whatever happens.  "
        "Histories are carried by the correspondence: base -> (append k entries, maybe replace the comment, finish)* with up "
        "to 4 (thorough 8) rounds over bases from the crate, the independent builder (prefix, forced ZIP64 records and extras, "
        "data descriptors, CP437 names, encrypted neighbour, entry comments), CPython zipfile and the empty archive; each "
        "round's bytes equal the model's; oracle after every round through by_index_raw on old and new archive: old "
        "entries unchanged and in order (name, method, sizes, CRC, time, mode, stored bytes, header offset; byte span header..data identical in place), new entries "
        "follow and decode to what was written, comment kept unless replaced (found and fixed D19: stale end record).",
   note="Trusted: Coq kernel, extraction+driver, harness, genzip.py/zipfile as base producers, CPython zlib/bz2. PARTIAL: that the writer's list after any call sequence is old entries then new ones is a theorem (C13_listing_old_then_new); the reader-level statement over the finished bytes of appended archives (same fields, for all multi-round histories) composes it with the finish/open round trip of C01 only for archives the model's hypotheses cover, and is otherwise decided per generated history.",
   technique="Coq proof (state established by new_append, re-emitted record round trip, old-bytes invariant and old-then-new listing over all call sequences) + byte-exact multi-round append correspondence with by_index_raw oracle",
   design="8 (C13)"),
 "C14": dict(
   text="Machine-checked Coq theorem over the writer model, for every writer state whose previous entry closes onto a "
        "well-behaved sink, every source record (any method code, any sizes) with its undecoded bytes and every admissible "
        "name: raw copy succeeds, the sink becomes old bytes ++ local header ++ the source bytes verbatim (nothing before is "
        "touched, the compressor and checksum functions are never consulted), the record kept for the directory carries the "
        "source's method, CRC-32, sizes, timestamp and Unix mode (fix D18), and closing the entry rewrites and recomputes "
        "nothing; the reader's find_content on the copied entry locates exactly those bytes, whatever follows (raw read of "
        "the copy = raw read of the source, any method code, any size); the same outcome on every sink that splits writes "
        "arbitrarily without failing (C14_raw_copy_any_chunking, through the chunking simulation of C09).  Correspondence: every entry of sources from the independent builder (decodable and undecodable methods, "
        "empty, data descriptors, DOS/Unix/other made-by, modes incl. setuid/000/symlink/dir, ZIP64 extras, prefix, odd "
        "times), the crate's writer (all methods x levels) and CPython zipfile, copied alone/first/last/between ordinary "
        "entries, renamed or not, plus random interleavings, every third program over a short-writing sink; archive bytes equal the model's; oracle: payload bytes equal "
        "(independent parser and by_index_raw), metadata equal, decodes to the same content, neighbours intact.",
   note="Trusted: Coq kernel, extraction+driver, harness, genzip.py/zipfile producers, strictzip.py. The reader side is C14_copied_bytes_found: find_content on the copied entry points exactly at the copied bytes, whatever is written behind them.",
   technique="Coq proof (raw copy on ideal and short-writing sinks: verbatim bytes, source metadata, no recomputation) + byte-exact correspondence over independent sources",
   design="8 (C14)"),
 "C08": dict(
   text="Machine-checked Coq theorems, for ALL values below 2^64 (so incl. 0xFFFF/0xFFFFFFFF and either side): the clamped "
        "32-bit fields + ZIP64 block of the central record the writer emits are decoded by the reader's extra-field logic to "
        "the exact three 64-bit values; behind any bytes, the end records the writer emits (plain, or ZIP64 record + locator "
        "+ plain, used exactly when a count/size/offset does not fit) are parsed by the reader model's parse_eocd / "
        "get_directory_counts to exactly (offset 0, directory offset, entry count) for every count, offset, size and comment; "
        "a successful write never takes a non-large entry above 2^32-1 bytes, the write that would is the large-file error "
        "and closes the writer so that finish() is an error too, and a compressed size that does not fit makes closing the "
        "entry an error (no wrapped sizes).  Correspondence at real sizes over a sparse in-memory device: entries of 2^32-2.."
        "5 GiB with/without large_file, header and directory offsets exactly at 2^32-2..2^32+1, 65535/65536 entries "
        "(thorough 65534..70001, other chunkings, deflate), raw copies of foreign entries whose compressed and uncompressed "
        "sizes straddle the limit independently: every header byte the crate wrote equals the model's header writers placed "
        "by the layout arithmetic, no stray bytes, the crate re-opens, lists and fully re-reads the sparse archive, an "
        "independent parser validates it; foreign archives with ZIP64 forced on small files in all 2^3 subsets (model = "
        "crate) and hand-packed sparse foreign archives with huge values in each allowed extra layout.",
   note="Trusted: Coq kernel, extraction+driver, harness (sparse device), genzip.py, strictzip.py, Python crc32_combine. The writer state machine itself is not executed by the model at >4 GiB (contents cannot be materialised): at those sizes only the header writers are compared, the state machine is compared at small sizes (C01/C12); find_eocd's backward search is not part of the end-record theorem (hypothesis: position of the end record); a directory > 4 GiB is covered by the theorem only.",
   technique="Coq proof (ZIP64 field and end-record round trips for all 64-bit values, large-file guard lemmas) + sparse-device correspondence of header bytes at real >4 GiB sizes",
   design="8 (C08)"),
 "C11": dict(
   text="Machine-checked Coq theorems: under ANY failure plan of the sink (hard errors and short writes at arbitrary "
        "calls, any number of them) no writer call of any program panics -- neither the call a failure strikes, nor any "
        "later call, nor finish, nor the final drop (C11_no_panic_under_faults, from the writer invariant of "
        "Proofs/WriterInv.v, for every compressor/checksum function and every call list); a failing sink call is an error "
        "of the primitive that leaves the bytes alone, and no sink primitive ever yields a panic.  A failure is never "
        "swallowed (Proofs/FaultSurface.v): whenever a Result-returning call returns Ok, the part of the sink's plan it "
        "consumed contains no failure -- an injected failure makes the very call during which it happens return an error, "
        "in every state, for all arguments, compressors and checksums; a program in which no call reports an error saw "
        "only short writes.  ERROR OR IDENTICAL (C11_error_or_identical, Proofs/OkSim.v, a one-sided simulation along the all-Ok "
        "paths of the whole writer): for every plan of the sink (short writes and failures anywhere, any number) and every "
        "program of Result-returning calls, fresh or appended writer: either some call reports an error, or every call "
        "returned exactly what it returns over a sink that never fails -- including the archive bytes handed back by "
        "finish() -- and the sink holds the same bytes.  "
        "READER side: the entry "
        "reader stack of a stored entry (plain or ZipCrypto) over a source with an ARBITRARY plan of short reads and "
        "failures: under every schedule of buffer sizes the bytes delivered before the first error are a prefix of the true "
        "content, a read reaching a clean end of file delivered exactly the true content, and a corrupted entry never "
        "completes -- an I/O failure surfaces as an error or as the failure-free result, never as other bytes.  For the "
        "writer the tie of this model to the crate is the correspondence: for 19 (thorough 160+) writer scenarios mixing all entry kinds, "
        "methods, extra data, alignment, ZipCrypto, raw copy, append, finish/drop and calls after finish, the k-th sink "
        "call fails for EVERY k below the failure-free call count and the crate's per-call results and final sink bytes "
        "equal the model's under the same plan (incl. the encoders' drop-time retry); reader scenarios (all methods, ZIP64, "
        "ZipCrypto, AE-1/2, data descriptors, prefix, nested and concatenated archives, fake end record in the comment) and "
        "open-for-append scenarios with the k-th source/device call failing for every k; the streaming API (visit, streamed "
        "reads to the end, entries dropped unread) with the k-th read failing for every k; oracle everywhere: no panic now or "
        "later, and either some call reported an error or the outcome equals the failure-free one (found and fixed D20 and "
        "D23; known finding D24: an entry of read_zipfile_from_stream dropped unread while the skip in Drop hits a "
        "transient failure, over a stored nested archive).",
   note="Trusted: Coq kernel, extraction+driver, harness (fault-injecting sink/source/device), genzip.py. PARTIAL: the writer theorems (no panic, failure surfaces in its call, error or identical) are about the writer model, whose tie to the crate under faults is the per-fault enumeration; Drop, which ignores errors by design, is outside the error-or-identical theorem; faults during open / new_append (directory parsing over a failing source), over the streaming API and in the AES / decompressing layers are decided on the implementation by the oracle only.",
   technique="Coq proof (no writer call panics under any failure plan: state-machine invariant) + exhaustive single-fault enumeration compared call-by-call with the plan-driven writer model",
   design="8 (C11), 13"),
 "C20": dict(
   text="Machine-checked Coq theorems over a model of several handles on one archive: the handles share the parsed "
        "metadata and exactly one mutable datum per entry (the atomic data start that find_content stores and only the "
        "data_start() accessor loads); reader position, open entry, decryption and checksum state belong to one handle.  "
        "For every archive, every schedule interleaving open / read / close calls of any number of handles in any order, "
        "every starting state and ANY content of the shared atomics, each handle observes exactly what it observes when "
        "used alone (induction over the schedule; arbitrary KDF, cipher, MAC, checksum); every value ever stored in an "
        "atomic is THE data start of its entry, so racing stores agree.  Correspondence: all order-preserving "
        "interleavings (20-90 per set; thorough up to 1680) of 2-4-call scripts for the original handle and 1-2 clones on "
        "stored / deflated / ZipCrypto archives and on archives with damaged local headers, model = crate call by call, "
        "and each handle's projection = its script run alone; 8-16 OS threads each cloning through a shared reference and "
        "reading all entries in random orders with yields = single-handle reference; deterministic I/O-LEVEL interleavings "
        "(clonegate): one handle is stopped in front of each of its read/seek calls while a second clone opens and reads the "
        "same entry, on entries with and without local extra fields; Send + Sync of ZipArchive<R> for four "
        "reader types is a compile-time assertion in the harness.",
   note="Trusted: Coq kernel, extraction+driver, harness (unsafe lifetime extension to hold entries across calls, std::thread), genzip.py. OS schedules are sampled; the all-interleavings claim is the theorem's, at API-call granularity; that the Rust shares nothing else mutable is by reading the code (types.rs: one AtomicU64 in ZipFileData) and by the Sync assertion.",
   technique="Coq proof (non-interference of handles by induction over arbitrary schedules) + exhaustive interleaving correspondence + thread stress + compile-time Send/Sync assertion",
   design="8 (C20)"),
 "C03": dict(
   text="Machine-checked Coq theorems over the reader model: (1) data in front of the archive: for ANY junk bytes, an archive "
        "(entries ++ directory ++ plain end record) is opened with offset() = |junk| and every header offset shifted "
        "accordingly (directory and end-record round trip through open with a non-zero archive offset); (2) for a stored, "
        "unencrypted entry the reader takes nothing from the local header but its signature and the two length fields: "
        "whatever version, flags (incl. the data-descriptor bit), time, CRC and sizes it carries and whatever follows the "
        "payload, the entry reader denotes the payload named by the CENTRAL record (offset, size) checked against the "
        "central CRC -- how entries of streaming producers are read; (3) every central record in the writer's field layout "
        "with any values (ZIP64 block or not, user extra records behind it) is decoded exactly (C01's record theorem); "
        "(4) lookup by name returns the LAST entry carrying the decoded name, an absent name and an out-of-range index are "
        "not-found, an undecodable method fails that entry only.  Other layouts (ZIP64 extra behind unknown extras, "
        "permuted local order, gaps, made-by variants, attribute and DOS-time bits, duplicate names, end-record window "
        "edges, ZIP64 end records of other producers) are carried by the correspondence: 2.4k observations on archives from "
        "an independent builder written from APPNOTE, CPython zipfile and Info-ZIP zip; every accessor and every entry's "
        "bytes are compared with the producer's manifest (oracle) and with the model.",
   note="Trusted: Coq kernel, extraction+driver, harness, genzip.py/zipfile/Info-ZIP as producers. PARTIAL: a theorem over an abstract 'every layout APPNOTE allows' renderer does not exist; the theorems above cover prefixes, arbitrary local header contents and the writer's central layout; compressed entries need decoders outside the reader model.",
   technique="Coq proof (prefix shift through open, local-header independence of the entry reader, central record codec, lookup lemmas) + differential correspondence against independent producers",
   design="8 (C03), 13"),
 "C10": dict(
   text="Machine-checked Coq theorems over the streaming-reader model: AGREEMENT on what the writer writes: for any number "
        "of stored entries with any names / options / contents, the bytes finish() returns are walked by the streaming "
        "reader from offset 0 into one entry per written entry, in order, with the written raw name, method, CRC, sizes "
        "and exactly the written payload, stopping on the first central directory signature; C01_stored_roundtrip states "
        "the same for the seekable reader on the same bytes, so both agree entry by entry (local-header codec round trip "
        "incl. the writer's header patch, drain-on-drop positioning).  Also: an entry handle is only produced for "
        "unencrypted, sized, decodable entries (others are an error, never data); after a handle is dropped the stream "
        "position is the end of its compressed data whatever was consumed.  THE METADATA PHASE OF visit() "
        "(C10_visit_metadata_agrees): for ANY bytes on which the local-header walk stops at the directory start and the "
        "seekable reader parses n >= 1 central records there, visit() succeeds and delivers exactly the seekable reader's "
        "records, one per entry, in order, equal in every field except the two positional ones.  Agreement on FOREIGN "
        "layouts for the file phase is carried by the correspondence: "
        "streamed sequences under cyclic consumption patterns {0,1,k,all} compared with the model and, entry by entry, "
        "with the seekable reader on the same bytes; refused archives; damaged and truncated streams.",
   note="Trusted: Coq kernel, extraction+driver, harness, genzip.py. PARTIAL: the agreement theorem covers archives of stored entries written by the writer model on a well-behaved sink; compressed entries, foreign producers and data descriptors are decided per generated archive (the metadata phase of visit() is a theorem for all inputs).",
   technique="Coq proof (stream reader = written entries = seekable reader on writer-rendered archives; position and refusal lemmas) + differential correspondence stream vs model vs seekable reader",
   design="8 (C10), 13"),
 "C04": dict(
   text="Machine-checked Coq theorems: for an arbitrary inner reader (any decoder or decryptor, even a misbehaving one), "
        "an arbitrary checksum function and every schedule of caller buffer sizes including zero-length reads, an end "
        "of file observed through the Crc32Reader model means the bytes returned hash to the declared value unless the "
        "entry is AE-2 (induction over the schedule, invariant 'hashed = returned'); instantiated for the entry reader of "
        "the archive model (any archive bytes); and, over well-behaved inner streams, the outcome is chunk-independent "
        "(streams lemma).  Correspondence: the reader model (open, by_index, local-header skip, crypto selection, "
        "Take/ZipCrypto/CRC layers) vs the crate on seed archives x every single-bit flip of data and CRC fields, "
        "multi-byte damage, truncations, swaps x buffer schedules incl. zero-length reads; streaming reader judged by "
        "the oracle (CRC-32 by CPython zlib).",
   note="Trusted: Coq kernel, extraction+driver, harness, genzip.py reference builder. Decompressors and AES are outside the executed model here (compared up to metadata; the oracle still judges the bytes). The theorem is about the Crc32Reader model and make_reader's wrapping, tied by correspondence.",
   technique="Coq proof (induction over read schedules, arbitrary inner reader) + damage-enumeration correspondence",
   design="8 (C04)"),
 "C05": dict(
   text="Machine-checked Coq theorems over the reader model, in which every panic site of the Rust (unwrap, panic!, "
        "unchecked arithmetic of debug builds, exhausted fuel of a bounded loop) is a Panic outcome: for EVERY byte string, "
        "open never panics or runs out of fuel (end-record scans are structural over the input, directory and extra-field "
        "loops are fuelled by the input length with a proved progress measure); opening any entry by index with or without "
        "password never panics (the unchecked offset sum is unreachable for inputs < 2^63 bytes); reading it under any "
        "buffer schedule never panics (AES finalisation invariant); pre-allocation is bounded by the input length; the "
        "streaming reader walked to the central directory, the visitor's metadata phase and ZipWriter::new_append never "
        "panic or run out of fuel either (every step advances >= 30 / 46 bytes inside the input).  "
        "Correspondence and measurement: 57k hostile inputs (every truncation, byte substitutions in all structural "
        "regions, multi-site damage, random bytes, single and pairwise structure-aware liars at 0/2^16/2^32/2^63/2^64) "
        "with the model predicting each open/by_index outcome, and the harness running every reader entry point "
        "(seekable, raw, by name, streaming, visitor, open-for-append) under a counting allocator and a clock.",
   note="Trusted: Coq kernel, extraction+driver, harness (allocator, clock), genzip.py. Heap and time are measured, not proved; panics inside codecs are outside the model.",
   technique="Coq proof (no-panic by case analysis over the outcome monad, fuel sufficiency by progress measure) + hostile-input correspondence and resource measurement",
   design="8 (C05)"),
 "C06": dict(
   text="Machine-checked Coq theorems for all names (unbounded): enclosed_name returns the name iff it is NUL-free, "
        "relative and never climbs above its start at any prefix of the component walk (iff against a declarative "
        "counting spec), the lexical walk of the result never pops the base; mangled_name re-parses to exactly the "
        "ordinary components, in order, of the NUL-truncated, separator-normalised name (split/join inversion lemma) "
        "and is confined under any base.  Path::components is defined in Gallina and compared with std, and the "
        "hand model with the crate (seekable and streaming accessors), on every string over {a . / \\ NUL} up to "
        "length 7 (9 thorough) plus random component sequences and Unicode names; CPython normpath is the oracle.",
   note="Trusted: Coq kernel, extraction+driver, harness; std::path::Path::components is modelled (Spec/PathSpec.v) and validated against std on every case; Unix semantics.",
   technique="Coq proof (induction over component lists) + exhaustive-by-length differential correspondence",
   design="8 (C06)"),
 "C19": dict(
   text="Machine-checked Coq theorems: the crate's CP437 table (regenerated from src/cp437.rs each run) equals the "
        "Unicode-consortium table emitted from CPython's codec for all 256 bytes; the ASCII fast path equals the "
        "per-byte table path for every byte string; flag set means UTF-8 lossy decoding (a total function), which is "
        "the identity on every encoded scalar-value string (complete 1.1M-point sweep lifted by induction), hence any "
        "Rust string given to the writer is flagged and read back unchanged.  Correspondence: all 256 bytes in both "
        "modes, adversarial invalid UTF-8, random strings up to 64 KiB as name/comment/archive comment through the "
        "seekable and streaming readers, random writer names; CPython codecs as oracle.",
   note="Trusted: Coq kernel, translator (table), extraction+driver, harness; String::from_utf8_lossy is modelled (Spec/Utf8.v) and compared with std on every case. Reader side: C19_reader_decodes_by_flag -- for any bytes the reader parses as a central record, the raw name is the stored bytes and name and comment are their decoding by the record's own flag bit.",
   technique="Coq proof (finite sweeps lifted by induction) over source-translated table + differential correspondence",
   design="8 (C19)"),
 "C07": dict(
   text="Machine-checked Coq theorems over an abstract POSIX-like tree (create_dir_all, File::create, chmod with "
        "kernel-style resolution of '.', '..' and empty pieces): every location ZipArchive::extract writes lies under the "
        "target directory, for every archive, every prior tree and every outcome (C06's depth walk lifted through "
        "directory creation, file creation and chmod, incl. the lexical-parent logic); the same for both phases of the "
        "streaming extractor; an unsafe name stops extraction with the invalid-path error before anything is written "
        "for it.  POSITIVE half (C07_plain_archive_reproduced): for every consistent archive of plain entries (files with "
        "content and optional mode, directories; components non-empty, not '.'/'..', no '/' or NUL; a file's path is "
        "neither an ancestor of nor equal to another entry's path), of any size and nesting, extraction into an empty target "
        "succeeds and the target then holds exactly: each file with its bytes and mode = recorded mode & 0o7777, each "
        "directory entry and every ancestor as a directory, and nothing else; the same for the streaming extractor with its "
        "two phases (files from the local headers, then one chmod per central record).  Correspondence: both extractors run into a sandbox next to a populated canary directory on archives "
        "with '..' chains, absolute paths, NUL, backslashes, '.'/empty pieces, duplicates, file/dir conflicts, "
        "symlink-typed entries, deep nesting and arbitrary permission bits; the complete sandbox listing (paths, types, "
        "modes, contents) and the result are compared with the model, and judged by the oracle (canary untouched; for "
        "consistent archives exact tree, contents and recorded permission bits).",
   note="Trusted: Coq kernel, extraction+driver, harness; the kernel/std::fs are modelled by Spec/Fs.v without symlinks and without permission enforcement (root), validated against the real file system on every case. PARTIAL: the positive theorem covers plain names into an empty target (names with '.', empty pieces, backslashes, duplicates of files, a populated target, and the streaming extractor's permission phase are decided per generated archive by the correspondence and the exact-tree oracle); symlinks and permission enforcement are outside the tree model.",
   technique="Coq proof (confinement invariant and exact-tree theorem over an abstract file tree) + sandbox-diff correspondence",
   design="8 (C07)"),
 "C09": dict(
   text="Machine-checked Coq theorems: a one-step 'streams' characterisation is proved for the source under any plan of "
        "short reads, std::io::Take, the ZipCrypto reader (key state = function of the bytes consumed) and Crc32Reader, "
        "composes (source->Take->ZipCrypto->Crc32 stack theorem), and is lifted by induction to every schedule of caller "
        "buffer sizes including zero-length reads: a completed run returns exactly the denoted bytes, end of file is "
        "sticky, two complete runs agree (chunk independence), and a Bad stream never completes.  Writer side: for every "
        "failure-free plan of short writes, write_all on the sink and the field-by-field header writes leave the bytes, "
        "position and result of a sink that accepts everything at once (put_at_app: overwriting then continuing = "
        "overwriting the concatenation), and the ZipWriter write call on a stored entry writes, counts and hashes all "
        "of its argument whatever each inner write took; WHOLE PROGRAMS (C09_programs_chunk_independent, Proofs/ChunkSim.v, a "
        "simulation over the entire writer state machine): two runs of the same sequence of API calls over sinks that split "
        "writes differently (both failure-free; fresh or appended writer; any compressor/checksum) return the same result "
        "for every call, including the bytes finish() returns, and leave the same sink bytes -- runs returning the large-file "
        "error of write are excluded, since the point where that error fires legitimately depends on the chunking.  THE "
        "CALLER'S CHUNKING (C09_caller_split_independent): writing a ++ b to a stored entry with one write_all call or with "
        "two leaves writer states related by the simulation relation, so every continuation returns the same results and "
        "the same archive bytes.  "
        "Correspondence: "
        "reader model vs crate under explicit short-read plans and caller schedules on all methods and encryptions "
        "(uniform chunks, one short read at every byte position, random plans, refill patterns), short reads from the "
        "first byte of the archive compared with the unfragmented run; writer programs under short-write plans compared byte-for-byte with the unchunked run.",
   note="Trusted: Coq kernel, extraction+driver, harness. The AES reader's lemma is relative to abstract block-cipher/MAC parameters. Decoder chunk independence (flate2/bzip2/zstd readers) is an assumption exercised by the schedule enumeration.",
   technique="Coq proof (compositional stream denotations lifted by induction over schedules) + schedule-enumeration correspondence",
   design="8 (C09)"),
 "C12": dict(
   text="Machine-checked Coq theorem C12_no_panic: for every compressor and checksum function, every plan of the sink "
        "(arbitrary short writes and failures at arbitrary I/O calls) and EVERY list of API calls with arbitrary "
        "arguments (names, contents, methods, levels, permissions, alignment, extra data, ZipCrypto option, raw copies of "
        "arbitrary source records, comments, calls after finish, a final drop), on a fresh writer or on any archive "
        "opened for append, no call ends in any of the model's panic sites; the only requirement is zip::DateTime's type "
        "invariant (year >= 1980).  Proof: an invariant over the writer's state components preserved by every call "
        "whatever its result, induction over the call list (planning it exposed defect D21).  Misuse theorems: writing "
        "with no file open is the no-file error with the state unchanged; ending extra data never begun is an error; "
        "once closed, write/start/end-extra/finish return the closed error with the state unchanged; an unsupported "
        "method or out-of-range level is an error that closes the writer; accepted extra data fits 16 bits and its first "
        "record is complete, non-ZIP64, non-reserved.  Entry names (C12_created_names_partial): after any program on any sink "
        "plan the writer's records are the old ones followed in call order by the name of every creating call that returned "
        "Ok (possibly also of one that failed after writing its header) and nothing else: no call removes, reorders or "
        "renames an entry, a successful creation is never lost.  Correspondence: ALL call sequences to depth 2 plus 9000 sampled of "
        "depth 3 (thorough: ALL to depth 4) over a 33-letter alphabet (every call, ZipCrypto option on every entry kind) "
        "plus random sequences up to depth 200: every call's Ok/Err(kind)/Panic and the final sink bytes equal the model's "
        "do_call; oracle: no panic, misuse is an error, and when finish succeeds an independent strict validator accepts "
        "the archive and finds exactly the entries whose creation succeeded with the bytes successfully written.",
   note="Trusted: Coq kernel, extraction+driver, harness, strictzip.py. The theorem is about the hand-written model (every Rust panic site enumerated as a Panic outcome); its tie to the crate is the call-by-call correspondence. Panics inside codec crates are outside the model (D17 was one).",
   technique="Coq proof (state-machine invariant by induction over arbitrary call sequences and sink plans: no panic) + bounded-exhaustive call-sequence correspondence",
   design="8 (C12), 13"),
 "C15": dict(
   text="Machine-checked Coq theorems over definitions regenerated from src/zipcrypto.rs: the CRC table, initial keys, "
        "key update and stream byte equal the PKWARE cipher transcribed from APPNOTE with a bitwise CRC (table by "
        "computation, stream byte by a complete 2^16 sweep, update by bit-level algebra); decrypt(encrypt(x)) = x with "
        "identical key evolution for every key state and content (independent of the key schedule); the decrypting "
        "reader streams the decryption whatever the chunking; no password on an encrypted entry is the "
        "password-required error; a wrong password can only complete a read whose bytes hash to the declared CRC; WRITER "
        "side: closing an encrypted stored entry puts exactly the PKWARE encryption (keys derived from the password) of "
        "11 header bytes ++ [high byte of CRC-32] ++ content into the archive, patches CRC / 12+n / n into the header, and "
        "decrypting it returns the check byte the reader tests and the content.  "
        "Correspondence: entries written by the crate judged by an independent Python PKWARE implementation and "
        "unzip -t and re-read; foreign entries from the reference builder and Info-ZIP incl. the DOS-time check "
        "variant; all 256 check-byte values with a wrong password.",
   note="Trusted: Coq kernel, translator, extraction+driver, harness, genzip.py, Info-ZIP. The writer-side theorem is proved for stored encrypted entries on a well-behaved sink (C15_written_ciphertext); compressed encrypted entries and the tie to the crate are judged per case by the independent decryptor.",
   technique="Coq proof over source-translated cipher (sweeps + bit algebra + induction) + differential correspondence with independent producers",
   design="8 (C15)"),
 "C16": dict(
   text="Machine-checked Coq theorems for ARBITRARY block cipher, MAC and KDF functions: the little-endian CTR keystream "
        "is an involution and chunk-independent; the authenticating reader streams a denotation (total, chunk-independent); "
        "SOUNDNESS for every archive byte string: a read of a non-empty entry that completes has verified the 80-bit MAC "
        "over the ciphertext it received and returned exactly its CTR decryption; CORRECTNESS: the container of an "
        "encryptor following the WinZip specification denotes the original data; CRC enforced for AE-1, never consulted "
        "for AE-2; no panic on any AES entry.  Correspondence: the model runs Gallina AES / HMAC-SHA1 (FIPS-197, RFC 3174/"
        "2202/6070 vectors as Examples; Gallina PBKDF2 compared with hashlib) against the crate on containers from an "
        "independent Python encryptor: all versions x strengths x inner methods x lengths, every single-bit flip of "
        "salt/verifier/ciphertext/MAC, truncations, CRC policy, wrong/no password, short-reading sources, repo fixture.",
   note="Trusted: Coq kernel, extraction+driver, harness, genzip.py AES, hashlib. 'Any change is detected' rests on HMAC-SHA1-80 unforgeability (named, not proved). The derived key is supplied to the model by hashlib in bulk cases.",
   technique="Coq proof (stream denotation of the authenticating reader, soundness/correctness for abstract primitives) + bit-flip-exhaustive correspondence with an independent encryptor",
   design="8 (C16)"),
 "C18": dict(
   text="Machine-checked Coq theorems over definitions regenerated from src/types.rs on every run: "
        "unpack.pack = id on all 2^32 DOS words (separability + two complete 2^16 sweeps by vm_compute), "
        "exact acceptance ranges of the checked constructor, survival up to 2 s, no-panic of packing, and "
        "inverse calendar conversions on the hand model; tied to the code by the translator and by a "
        "correspondence run (122k cases) with CPython's calendar as independent oracle plus the closed form "
        "over all 2^32 words on the release build.",
   note="Trusted: Coq kernel, rs2v.py translator, extraction+driver, harness; `time` crate calendar rules are hand-modelled (compared on every date 1979-2108).",
   technique="Coq proof over source-translated definitions + differential correspondence",
   design="8 (C18)"),
}

def main():
    checks = []
    for pid in PROPS:
        if pid in CLAIMED:
            c = CLAIMED[pid]
            checks.append(dict(
                property_id=pid,
                quick_cmd="bin/zv check %s --tier quick" % pid,
                thorough_cmd="bin/zv check %s --tier thorough" % pid,
                evidence_file="evidence/%s.json" % pid,
                replay_cmd_template="bin/zv replay {path}",
                engine="zv",
                level_claimed=dict(category="proof", text=c["text"], design_ref="DESIGN.md section " + c["design"]),
                level_note=c["note"],
                technique=c["technique"]))
    na = [dict(property_id=p, reason="check not built yet in this round (model and theorems under construction; see DESIGN.md section 12)")
          for p in PROPS if p not in CLAIMED]
    m = dict(
        version=1,
        setup_cmd="bin/zv setup",
        hooks=dict(guard="zip_verif", enable='RUSTFLAGS="--cfg zip_verif" (no hook is currently needed: all observation goes through the public API)',
                   baseline_off_cmd="cd /repo && cargo test --workspace --no-fail-fast --offline",
                   source_commits=[], add_only=True),
        engines=[dict(name="zv", path="bin/zv", serves_properties=sorted(CLAIMED),
                      kind_free_text="Coq 8.16 proofs (coq/) + Rust->Gallina translator (tools/rs2v.py) + extracted-model vs crate correspondence (ocaml/, harness/)")],
        checks=checks,
        notes="See DESIGN.md. Every check rebuilds the generated Coq files and the harness from /repo's working tree.",
        not_applicable=na)
    json.dump(m, open(os.path.join(ROOT, "MANIFEST.json"), "w"), indent=1)
    print("MANIFEST.json: %d checks, %d not_applicable" % (len(checks), len(na)))

main()
