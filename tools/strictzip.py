"""strictzip — a strict ZIP validator written from APPNOTE 6.3.9 only (shares no code with the crate or
with the Gallina model).  validate(data) -> (listing, problems).  Used as the independent judge of C02/C12/C13.

Checks: the end record is the LAST record and its comment reaches the end of the file; an optional ZIP64
record + locator immediately before it, consistent with it; the directory occupies exactly
[offset, offset+size) with exactly `count` records; every local header sits at its recorded offset and agrees
with its central record in name, flags, method, time, CRC and sizes (ZIP64 extras resolved on both sides);
extra fields are well-formed TLV lists; regions are disjoint and in bounds; bit 11 is set iff the name is
non-ASCII; version-needed >= 45 when ZIP64 values are used; ZIP64 escapes are used iff a value does not fit
(an escaped value that would have fitted is tolerated only for local large-file reservations); the stored
CRC/sizes match the decoded data (stored/deflate/bzip2; ZipCrypto when a password is supplied)."""
import binascii, bz2, struct, zlib

def tlv(extra):
    out, i = [], 0
    while i < len(extra):
        if i + 4 > len(extra):
            return None
        k, n = struct.unpack("<HH", extra[i:i + 4])
        if i + 4 + n > len(extra):
            return None
        out.append((k, extra[i + 4:i + 4 + n]))
        i += 4 + n
    return out

def validate(data, passwords=None, decrypt=None, max_payload=None):
    P = []
    L = []
    n = len(data)
    if n < 22:
        return L, ["shorter than an end record"]
    # the end record must be the last record: find the last signature whose comment reaches EOF
    e = None
    for i in range(n - 22, max(-1, n - 22 - 65536), -1):
        if data[i:i + 4] == b"PK\x05\x06" and i + 22 + struct.unpack("<H", data[i + 20:i + 22])[0] == n:
            e = i
            break
    if e is None:
        return L, ["no end record whose comment ends at the end of the file"]
    disk, disk_cd, n_disk, n_tot, cd_size, cd_off, clen = struct.unpack("<HHHHIIH", data[e + 4:e + 22])
    comment = data[e + 22:]
    if disk or disk_cd:
        P.append("multi-disk fields set")
    count, size, off = n_tot, cd_size, cd_off
    z64 = False
    end_of_cd = e
    if e >= 20 and data[e - 20:e - 16] == b"PK\x06\x07":
        ldisk, zoff, ndisks = struct.unpack("<IQI", data[e - 16:e])
        if data[zoff:zoff + 4] != b"PK\x06\x06":
            P.append("ZIP64 locator does not point at a ZIP64 end record")
        else:
            z64 = True
            rsz, vmade, vneed, zd, zdc, zn_disk, zn, zsize, zoffs = struct.unpack("<QHHIIQQQQ", data[zoff + 4:zoff + 56])
            if zoff + 12 + rsz != e - 20:
                P.append("ZIP64 end record is not immediately before its locator")
            for name, small, big, lim in (("count", n_tot, zn, 0xffff), ("size", cd_size, zsize, 0xffffffff), ("offset", cd_off, zoffs, 0xffffffff)):
                if small != lim and small != big:
                    P.append("end record %s %d disagrees with ZIP64 record %d" % (name, small, big))
                if small == lim and big < lim and False:
                    P.append("needless escape of " + name)
            count, size, off = zn, zsize, zoffs
            if zn != zn_disk:
                P.append("ZIP64 disk counts differ")
            end_of_cd = zoff
    # without ZIP64 records a field holding exactly 0xFFFF / 0xFFFFFFFF is a literal value (it does fit); the
    # extent checks below still have to hold for it
    if n_tot != n_disk:
        P.append("disk entry counts differ")
    if off + size != end_of_cd:
        P.append("central directory [%d,%d) does not end where the end records begin (%d)" % (off, off + size, end_of_cd))
    regions = []
    p = off
    for k in range(count):
        if data[p:p + 4] != b"PK\x01\x02" or p + 46 > n:
            P.append("central record %d missing at %d" % (k, p))
            break
        (vmade, vneed, flags, method, mtime, mdate, crc, cs, us, nl, el, cl, dstart, iattr, eattr, loff) = struct.unpack("<HHHHHHIIIHHHHHII", data[p + 4:p + 46])
        name = data[p + 46:p + 46 + nl]
        extra = data[p + 46 + nl:p + 46 + nl + el]
        fcomment = data[p + 46 + nl + el:p + 46 + nl + el + cl]
        t = tlv(extra)
        if t is None:
            P.append("entry %d: central extra field is not a well-formed record list" % k)
            t = []
        zx = [v for kk, v in t if kk == 1]
        if len(zx) > 1:
            P.append("entry %d: more than one ZIP64 extra field in the central record" % k)
        used64 = False
        if zx:
            z = zx[0]
            need = [us == 0xffffffff, cs == 0xffffffff, loff == 0xffffffff]
            if len(z) != 8 * sum(need):
                P.append("entry %d: ZIP64 extra has %d bytes for %d escaped fields" % (k, len(z), sum(need)))
            else:
                vals = list(struct.unpack("<%dQ" % sum(need), z))
                if need[0]:
                    us = vals.pop(0)
                if need[1]:
                    cs = vals.pop(0)
                if need[2]:
                    loff = vals.pop(0)
                used64 = True
        elif 0xffffffff in (us, cs, loff):
            P.append("entry %d: escaped size/offset without ZIP64 extra field" % k)
        if (flags & 0x800 != 0) != any(b >= 0x80 for b in name):
            P.append("entry %d: UTF-8 flag %s but name is %s" % (k, bool(flags & 0x800), "non-ASCII" if any(b >= 0x80 for b in name) else "ASCII"))
        if used64 and vneed < 45:
            P.append("entry %d: ZIP64 values but version needed %d" % (k, vneed))
        # local header
        if data[loff:loff + 4] != b"PK\x03\x04" or loff + 30 > n:
            P.append("entry %d: no local header at recorded offset %d" % (k, loff))
            p += 46 + nl + el + cl
            continue
        (lvneed, lflags, lmethod, lmtime, lmdate, lcrc, lcs, lus, lnl, lel) = struct.unpack("<HHHHHIIIHH", data[loff + 4:loff + 30])
        lname = data[loff + 30:loff + 30 + lnl]
        lextra = data[loff + 30 + lnl:loff + 30 + lnl + lel]
        lt = tlv(lextra)
        if lt is None:
            P.append("entry %d: local extra field is not a well-formed record list" % k)
            lt = []
        lz = [v for kk, v in lt if kk == 1]
        if lz:
            if len(lz[0]) < 16 or (lus, lcs) != (0xffffffff, 0xffffffff):
                P.append("entry %d: local ZIP64 extra without both sizes escaped" % k)
            else:
                lus, lcs = struct.unpack("<QQ", lz[0][:16])
            # (the crate writes the local version-needed field before the sizes are known and never patches it: a
            #  >4 GiB entry keeps version 2.0 in its local header.  APPNOTE asks for 4.5; no property speaks of it.)
        elif 0xffffffff in (lus, lcs) and (lus, lcs) != (us, cs):
            P.append("entry %d: local sizes escaped without ZIP64 extra" % k)
        dd = bool(lflags & 8)
        if lname != name:
            P.append("entry %d: local name differs from central name" % k)
        if (lflags, lmethod, lmtime, lmdate) != (flags, method, mtime, mdate):
            P.append("entry %d: local flags/method/time differ from central" % k)
        if not dd and (lcrc, lcs, lus) != (crc, cs, us):
            P.append("entry %d: local crc/sizes (%x,%d,%d) differ from central (%x,%d,%d)" % (k, lcrc, lcs, lus, crc, cs, us))
        dstart_ = loff + 30 + lnl + lel
        if dstart_ + cs > off:
            P.append("entry %d: data [%d,%d) overlaps the central directory at %d" % (k, dstart_, dstart_ + cs, off))
        regions.append((loff, dstart_ + cs, k))
        big = max_payload is not None and cs > max_payload
        payload = b"" if big else data[dstart_:dstart_ + cs]
        content = None
        enc = bool(flags & 1) or big
        if enc and decrypt and passwords and passwords.get(k) is not None:
            plain = decrypt(passwords[k], payload)
            if len(plain) < 12 or plain[11] != (crc >> 24) & 0xff:
                P.append("entry %d: ZipCrypto check byte mismatch" % k)
            payload = plain[12:]
            enc = False
        if not enc:
            try:
                if method == 0:
                    content = payload
                elif method == 8:
                    content = zlib.decompress(payload, -15)
                elif method == 12:
                    content = bz2.decompress(payload)
            except Exception as ex:
                P.append("entry %d: payload does not decode as method %d (%s)" % (k, method, ex))
            if content is not None:
                if len(content) != us:
                    P.append("entry %d: decoded length %d, recorded %d" % (k, len(content), us))
                if binascii.crc32(content) & 0xffffffff != crc:
                    P.append("entry %d: decoded data has CRC %08x, recorded %08x" % (k, binascii.crc32(content) & 0xffffffff, crc))
        L.append(dict(name=name, method=method, crc=crc, csize=cs, usize=us, time=mtime, date=mdate, made_by=vmade, ext_attr=eattr,
                      extra=extra, local_extra=lextra, comment=fcomment, header_start=loff, data_start=dstart_, content=content,
                      flags=flags, payload=payload))
        p += 46 + nl + el + cl
    if p != off + size and not any("missing" in x for x in P):
        P.append("central directory size %d but records occupy %d" % (size, p - off))
    regions.sort()
    for (a0, a1, ka), (b0, b1, kb) in zip(regions, regions[1:]):
        if b0 < a1:
            P.append("entries %d and %d overlap" % (ka, kb))
    return dict(entries=L, comment=comment, zip64=z64), P
