"""genzip — independent reference builder of ZIP archives (written from APPNOTE 6.3.9, shares no code
with the crate), with layout randomisation, and structure-aware damage for the hostile-input streams.
Python stdlib only (zlib, bz2, binascii, hashlib, hmac)."""
import binascii, bz2, hashlib, hmac, struct, zlib

SIG_L, SIG_C, SIG_E, SIG_Z, SIG_ZL, SIG_DD = 0x04034b50, 0x02014b50, 0x06054b50, 0x06064b50, 0x07064b50, 0x08074b50

def dos(y=2018, mo=11, d=17, h=10, mi=38, s=30):
    return ((y - 1980) << 9 | mo << 5 | d) & 0xffff, (h << 11 | mi << 5 | s >> 1) & 0xffff

# ---------------------------------------------------------------- PKWARE traditional encryption
_CRCT = [0] * 256
for _i in range(256):
    _c = _i
    for _ in range(8):
        _c = (_c >> 1) ^ 0xEDB88320 if _c & 1 else _c >> 1
    _CRCT[_i] = _c

class ZipCrypto:
    def __init__(self, pw: bytes):
        self.k = [0x12345678, 0x23456789, 0x34567890]
        for b in pw:
            self.update(b)
    def update(self, b):
        k = self.k
        k[0] = (k[0] >> 8) ^ _CRCT[(k[0] ^ b) & 0xff]
        k[1] = ((k[1] + (k[0] & 0xff)) * 134775813 + 1) & 0xffffffff
        k[2] = (k[2] >> 8) ^ _CRCT[(k[2] ^ (k[1] >> 24)) & 0xff]
    def stream(self):
        t = (self.k[2] | 2) & 0xffff
        return ((t * (t ^ 1)) >> 8) & 0xff
    def encrypt(self, data: bytes) -> bytes:
        out = bytearray()
        for p in data:
            out.append(p ^ self.stream())
            self.update(p)
        return bytes(out)
    def decrypt(self, data: bytes) -> bytes:
        out = bytearray()
        for c in data:
            p = c ^ self.stream()
            out.append(p)
            self.update(p)
        return bytes(out)

def zipcrypto_encrypt(pw: bytes, payload: bytes, check_byte: int, rnd: bytes) -> bytes:
    hdr = (rnd + bytes(11))[:11] + bytes([check_byte])
    return ZipCrypto(pw).encrypt(hdr + payload)

# ---------------------------------------------------------------- AES (FIPS-197) for WinZip AE-x containers
_SBOX = None
def _aes_tables():
    global _SBOX
    if _SBOX:
        return
    p = q = 1
    sbox = [0] * 256
    while True:
        p = p ^ ((p << 1) & 0xff) ^ (0x1b if p & 0x80 else 0)
        q ^= q << 1; q ^= q << 2; q ^= q << 4; q &= 0xff
        if q & 0x80:
            q ^= 0x09
        x = q ^ ((q << 1 | q >> 7) & 0xff) ^ ((q << 2 | q >> 6) & 0xff) ^ ((q << 3 | q >> 5) & 0xff) ^ ((q << 4 | q >> 4) & 0xff)
        sbox[p] = (x ^ 0x63) & 0xff
        if p == 1:
            break
    sbox[0] = 0x63
    _SBOX = sbox

def _xt(a):
    return ((a << 1) ^ 0x1b) & 0xff if a & 0x80 else a << 1

def aes_encrypt_block(key: bytes, block: bytes) -> bytes:
    _aes_tables()
    nk = len(key) // 4
    nr = nk + 6
    w = [list(key[4 * i:4 * i + 4]) for i in range(nk)]
    rcon = 1
    for i in range(nk, 4 * (nr + 1)):
        t = list(w[i - 1])
        if i % nk == 0:
            t = t[1:] + t[:1]
            t = [_SBOX[b] for b in t]
            t[0] ^= rcon
            rcon = _xt(rcon)
        elif nk > 6 and i % nk == 4:
            t = [_SBOX[b] for b in t]
        w.append([a ^ b for a, b in zip(w[i - nk], t)])
    s = [block[i] ^ w[i // 4][i % 4] for i in range(16)]
    for r in range(1, nr + 1):
        s = [_SBOX[b] for b in s]
        s = [s[(i + 4 * (i % 4)) % 16] for i in range(16)]          # shift rows (column-major state)
        if r != nr:
            t = []
            for c in range(4):
                a = s[4 * c:4 * c + 4]
                x = a[0] ^ a[1] ^ a[2] ^ a[3]
                t += [a[i] ^ x ^ _xt(a[i] ^ a[(i + 1) % 4]) for i in range(4)]
            s = t
        s = [s[i] ^ w[4 * r + i // 4][i % 4] for i in range(16)]
    return bytes(s)

def aes_ctr_le(key: bytes, data: bytes) -> bytes:
    out = bytearray()
    ctr = 1
    for i in range(0, len(data), 16):
        ks = aes_encrypt_block(key, ctr.to_bytes(16, "little"))
        out += bytes(a ^ b for a, b in zip(data[i:i + 16], ks))
        ctr += 1
    return bytes(out)

def winzip_aes_container(pw: bytes, salt: bytes, strength: int, payload: bytes):
    """strength 1|2|3 -> salt ‖ verifier ‖ CTR-LE ciphertext ‖ HMAC-SHA1-80"""
    klen = {1: 16, 2: 24, 3: 32}[strength]
    dk = hashlib.pbkdf2_hmac("sha1", pw, salt, 1000, 2 * klen + 2)
    ct = aes_ctr_le(dk[:klen], payload)
    tag = hmac.new(dk[klen:2 * klen], ct, hashlib.sha1).digest()[:10]
    return salt + dk[2 * klen:] + ct + tag

# ---------------------------------------------------------------- entries
def compress(method: int, data: bytes, level=6) -> bytes:
    if method == 0:
        return data
    if method == 8:
        c = zlib.compressobj(level, zlib.DEFLATED, -15)
        return c.compress(data) + c.flush()
    if method == 12:
        return bz2.compress(data, max(1, level))
    raise ValueError("method %d needs an external compressor" % method)

class Entry:
    def __init__(self, name=b"a.txt", content=b"", method=0, utf8=False, date_time=None, made_by=(3 << 8) | 20,
                 ext_attr=(0o100644 << 16), extra_local=b"", extra_central=b"", comment=b"", dd=None,
                 z64=(), z64_local=False, payload=None, crc=None, usize=None, need=20, flags_extra=0,
                 password=None, aes=None, local_name=None, gap_before=b"", level=6):
        self.__dict__.update(locals())
        del self.__dict__["self"]
        d, t = date_time if date_time else dos()
        self.date, self.time = d, t
        self.real_crc = binascii.crc32(content) & 0xffffffff
        if payload is None:
            payload = compress(method, content, level)
        self.inner_method = method
        self.flags = (1 << 11 if utf8 else 0) | (1 << 3 if dd else 0) | flags_extra
        if aes:                       # aes = (version 1|2, strength 1|2|3, salt)
            ver, strength, salt = aes
            payload = winzip_aes_container(password, salt, strength, payload)
            self.flags |= 1
            aesx = struct.pack("<HHH2sBH", 0x9901, 7, ver, b"AE", strength, method)
            self.extra_local = aesx + self.extra_local
            self.extra_central = aesx + self.extra_central
            self.method = 99
            if ver == 2:
                self.crc = 0 if crc is None else crc
        elif password is not None:
            chk = (t >> 8) if dd else (self.real_crc >> 24)
            payload = zipcrypto_encrypt(password, payload, chk & 0xff, b"\x01\x02\x03\x04\x05\x06\x07\x08\x09\x0a\x0b")
            self.flags |= 1
        self.payload = payload
        if self.crc is None:
            self.crc = self.real_crc
        if self.usize is None:
            self.usize = len(content)

def build(entries, prefix=b"", comment=b"", force_z64=False, trail=b"", cd_gap=b"", order=None, eocd_override=None):
    """returns (bytes, manifest).  Offsets recorded in the archive are relative to the end of `prefix`
    (prepended junk), as produced by e.g. self-extractor stubs."""
    body = bytearray()
    offs = {}
    idxs = list(range(len(entries))) if order is None else order
    for i in idxs:
        e = entries[i]
        body += e.gap_before
        offs[i] = len(body)
        z64l = e.z64_local or len(e.payload) > 0xffffffff or e.usize > 0xffffffff
        if e.dd:
            lcrc, lcs, lus = 0, 0, 0
        else:
            lcrc, lcs, lus = e.crc, len(e.payload), e.usize
        xl = e.extra_local
        if z64l and not e.dd:
            xl = struct.pack("<HHQQ", 1, 16, lus, lcs) + xl
            lcs = lus = 0xffffffff
        name_l = e.local_name if e.local_name is not None else e.name
        body += struct.pack("<IHHHHHIIIHH", SIG_L, 45 if z64l else e.need, e.flags, e.method, e.time, e.date,
                            lcrc, lcs, lus, len(name_l), len(xl)) + name_l + xl + e.payload
        if e.dd == "sig32":
            body += struct.pack("<IIII", SIG_DD, e.crc, len(e.payload), e.usize)
        elif e.dd == "nosig32":
            body += struct.pack("<III", e.crc, len(e.payload), e.usize)
        elif e.dd == "sig64":
            body += struct.pack("<IIQQ", SIG_DD, e.crc, len(e.payload), e.usize)
    body += cd_gap
    cd_start = len(body)
    cd = bytearray()
    manifest = []
    for i, e in enumerate(entries):
        us, cs, off = e.usize, len(e.payload), offs[i]
        zx = b""
        fus, fcs, foff = us, cs, off
        if "usize" in e.z64 or us > 0xffffffff:
            zx += struct.pack("<Q", us); fus = 0xffffffff
        if "csize" in e.z64 or cs > 0xffffffff:
            zx += struct.pack("<Q", cs); fcs = 0xffffffff
        if "offset" in e.z64 or off > 0xffffffff:
            zx += struct.pack("<Q", off); foff = 0xffffffff
        xc = e.extra_central
        if zx:
            z = struct.pack("<HH", 1, len(zx)) + zx
            xc = (xc + z) if getattr(e, "z64_last", False) else (z + xc)
        ch_start = len(prefix) + cd_start + len(cd)
        cd += struct.pack("<IHHHHHHIIIHHHHHII", SIG_C, e.made_by, 45 if zx else e.need, e.flags, e.method, e.time, e.date,
                          e.crc, fcs, fus, len(e.name), len(xc), len(e.comment), 0, 0, e.ext_attr, foff) + e.name + xc + e.comment
        manifest.append(dict(name_raw=e.name.hex(), utf8=e.utf8, method=e.method, inner_method=e.inner_method, csize=cs, usize=us,
                             crc=e.crc, date=e.date, time=e.time, made_by=e.made_by, ext_attr=e.ext_attr,
                             extra=xc.hex(), comment=e.comment.hex(), header_start=len(prefix) + off, central_start=ch_start,
                             data_start=len(prefix) + off + 30 + len(e.local_name if e.local_name is not None else e.name)
                             + len(e.extra_local) + (20 if (e.z64_local or cs > 0xffffffff or us > 0xffffffff) and not e.dd else 0),
                             content=e.content.hex() if len(e.content) <= 4096 else None,
                             content_crc=e.real_crc, content_len=len(e.content),
                             encrypted=bool(e.flags & 1), aes=e.aes is not None))
    out = bytearray(prefix) + body + cd
    n = len(entries)
    need64 = force_z64 or n > 0xffff or cd_start > 0xffffffff or len(cd) > 0xffffffff
    if need64:
        out += struct.pack("<IQHHIIQQQQ", SIG_Z, 44, 45, 45, 0, 0, n, n, len(cd), cd_start)
        out += struct.pack("<IIQI", SIG_ZL, 0, cd_start + len(cd), 1)
    e_n = min(n, 0xffff) if not force_z64 else (0xffff if force_z64 == "escape" else min(n, 0xffff))
    e_sz = min(len(cd), 0xffffffff) if force_z64 != "escape" else 0xffffffff
    e_off = min(cd_start, 0xffffffff) if force_z64 != "escape" else 0xffffffff
    ev = dict(disk=0, disk_cd=0, n_disk=e_n, n=e_n, size=e_sz, off=e_off)
    if eocd_override:
        ev.update(eocd_override)
    out += struct.pack("<IHHHHIIH", SIG_E, ev["disk"], ev["disk_cd"], ev["n_disk"], ev["n"], ev["size"], ev["off"], len(comment)) + comment + trail
    return bytes(out), dict(entries=manifest, offset=len(prefix), comment=comment.hex(), n=n)

# ---------------------------------------------------------------- regions (for structure-aware damage)
def regions(data: bytes, manifest):
    """[(kind, start, end)] of the structural regions of an archive built by build()"""
    regs = []
    for m in manifest["entries"]:
        hs = m["header_start"]
        regs.append(("local", hs, m["data_start"]))
        regs.append(("data", m["data_start"], m["data_start"] + m["csize"]))
        regs.append(("central", m["central_start"], m["central_start"] + 46 + len(m["name_raw"]) // 2 + len(m["extra"]) // 2 + len(m["comment"]) // 2))
    e = data.rfind(struct.pack("<I", SIG_E))
    regs.append(("eocd", e, len(data)))
    return regs
